#![feature(rustc_private)]
extern crate rustc_driver;
extern crate rustc_hir;
extern crate rustc_interface;
extern crate rustc_middle;
extern crate rustc_span;
extern crate rustc_abi;

use rustc_driver::{run_compiler, Callbacks, Compilation};
use rustc_hir::def::DefKind;
use rustc_hir::def_id::{DefId, LOCAL_CRATE};
use rustc_middle::mir::{
    AggregateKind, AssertKind, Body, BorrowKind, Const, Operand, Place, ProjectionElem,
    Rvalue, StatementKind, TerminatorKind,
};
use rustc_middle::ty::{self, GenericArgKind, Instance, Ty, TyCtxt, TypingEnv};
use std::fmt::Write as _;
use std::io::Write as _;

fn esc(s: &str) -> String {
    let mut o = String::with_capacity(s.len() + 2);
    o.push('"');
    for c in s.chars() {
        match c {
            '"' => o.push_str("\\\""),
            '\\' => o.push_str("\\\\"),
            '\n' => o.push_str("\\n"),
            '\r' => o.push_str("\\r"),
            '\t' => o.push_str("\\t"),
            c if (c as u32) < 0x20 => { let _ = write!(o, "\\u{:04x}", c as u32); }
            c => o.push(c),
        }
    }
    o.push('"');
    o
}

fn dpath(tcx: TyCtxt<'_>, did: DefId) -> String {
    let p = tcx.def_path_str(did);
    if did.is_local() && !p.starts_with('<') {
        format!("{}::{}", tcx.crate_name(LOCAL_CRATE), p)
    } else {
        p
    }
}

fn ty_head<'tcx>(tcx: TyCtxt<'tcx>, t: Ty<'tcx>) -> String {
    // strip refs / Box; report ADT path or param name
    let mut t = t;
    loop {
        match t.kind() {
            ty::Ref(_, inner, _) => t = *inner,
            ty::RawPtr(inner, _) => t = *inner,
            _ => break,
        }
    }
    match t.kind() {
        ty::Adt(def, _) => format!("adt:{}", dpath(tcx, def.did())),
        ty::Param(p) => format!("param:{}", p.name),
        ty::Closure(d, _) => format!("closure:{}", dpath(tcx, *d)),
        ty::Alias(..) => format!("alias:{}", t),
        _ => format!("other:{}", t),
    }
}

struct Ctx<'a, 'tcx> {
    tcx: TyCtxt<'tcx>,
    body: &'a Body<'tcx>,
    tenv: TypingEnv<'tcx>,
}

impl<'a, 'tcx> Ctx<'a, 'tcx> {
    fn place(&self, p: &Place<'tcx>) -> String {
        let mut s = format!("{{\"l\":{},\"p\":[", p.local.as_usize());
        let mut first = true;
        let mut owners: Vec<String> = Vec::new();
        for (base, elem) in p.iter_projections() {
            if !first { s.push(','); }
            first = false;
            match elem {
                ProjectionElem::Deref => s.push_str("\"*\""),
                ProjectionElem::Field(f, _) => {
                    let bty = base.ty(&self.body.local_decls, self.tcx);
                    let name = match bty.ty.kind() {
                        ty::Adt(def, _) => {
                            let v = bty.variant_index.unwrap_or(rustc_abi::FIRST_VARIANT);
                            if def.is_enum() || def.is_struct() || def.is_union() {
                                let var = def.variant(v);
                                var.fields.get(f).map(|fd| fd.name.to_string()).unwrap_or(format!("{}", f.as_usize()))
                            } else { format!("{}", f.as_usize()) }
                        }
                        _ => format!("{}", f.as_usize()),
                    };
                    s.push_str(&esc(&format!(".{}", name)));
                    let owner = match bty.ty.kind() {
                        ty::Adt(def, _) => dpath(self.tcx, def.did()),
                        ty::Closure(..) => "closure".to_string(),
                        ty::Tuple(..) => "tuple".to_string(),
                        _ => "?".to_string(),
                    };
                    owners.push(esc(&owner));
                }
                ProjectionElem::Downcast(name, idx) => {
                    let n = name.map(|n| n.to_string()).unwrap_or(format!("{}", idx.as_usize()));
                    s.push_str(&esc(&format!("as:{}", n)));
                }
                ProjectionElem::Index(l) => s.push_str(&esc(&format!("[_{}]", l.as_usize()))),
                ProjectionElem::ConstantIndex { offset, .. } => s.push_str(&esc(&format!("[c{}]", offset))),
                ProjectionElem::Subslice { .. } => s.push_str("\"[..]\""),
                _ => s.push_str("\"?\""),
            }
        }
        s.push(']');
        if !owners.is_empty() {
            s.push_str(",\"o\":[");
            s.push_str(&owners.join(","));
            s.push(']');
        }
        s.push('}');
        s
    }

    fn constant(&self, c: &Const<'tcx>) -> String {
        let t = c.ty();
        if let ty::FnDef(did, args) = t.kind() {
            return format!("{{\"fn\":{},\"args\":{}}}", esc(&dpath(self.tcx, *did)), esc(&format!("{:?}", args)));
        }
        let mut val = String::new();
        if let Some(si) = c.try_eval_scalar_int(self.tcx, self.tenv) {
            if t.is_integral() || t.is_bool() || t.is_char() {
                let bits = si.to_bits(si.size());
                val = format!("{}", bits);
            }
        }
        // a named constant (`const PREFIX: &[u8] = b"..";`) is shown by its value, like the literal it stands for, when it evaluates
        let mut shown = format!("{}", c);
        if let Const::Unevaluated(uv, _) = c {
            let named = uv.promoted.is_none() && matches!(self.tcx.def_kind(uv.def), DefKind::Const { .. } | DefKind::AssocConst { .. });
            if let (true, Ok(v)) = (named, c.eval(self.tcx, self.tenv, rustc_span::DUMMY_SP)) {
                let c2 = Const::Val(v, t);
                let s2 = format!("{}", c2);
                if !s2.is_empty() && s2.len() < 400 {
                    shown = s2;
                }
            }
        }
        format!("{{\"c\":{},\"ty\":{},\"v\":{}}}", esc(&shown), esc(&format!("{}", t)), esc(&val))
    }

    fn operand(&self, o: &Operand<'tcx>) -> String {
        match o {
            Operand::Copy(p) => format!("{{\"k\":\"copy\",\"pl\":{}}}", self.place(p)),
            Operand::Move(p) => format!("{{\"k\":\"move\",\"pl\":{}}}", self.place(p)),
            Operand::Constant(c) => format!("{{\"k\":\"const\",\"v\":{}}}", self.constant(&c.const_)),
            #[allow(unreachable_patterns)]
            _ => "{\"k\":\"other\"}".to_string(),
        }
    }

    fn ops(&self, v: &[&Operand<'tcx>]) -> String {
        let mut s = String::from("[");
        for (i, o) in v.iter().enumerate() {
            if i > 0 { s.push(','); }
            s.push_str(&self.operand(o));
        }
        s.push(']');
        s
    }

    fn rvalue(&self, r: &Rvalue<'tcx>) -> String {
        match r {
            Rvalue::Use(o, _) => format!("{{\"k\":\"use\",\"o\":{}}}", self.operand(o)),
            Rvalue::Ref(_, bk, p) => {
                let m = matches!(bk, BorrowKind::Mut { .. });
                format!("{{\"k\":\"ref\",\"mut\":{},\"pl\":{}}}", m, self.place(p))
            }
            Rvalue::RawPtr(_, p) => format!("{{\"k\":\"rawptr\",\"pl\":{}}}", self.place(p)),
            Rvalue::BinaryOp(op, ab) => {
                format!("{{\"k\":\"bin\",\"op\":{},\"a\":{},\"b\":{}}}", esc(&format!("{:?}", op)), self.operand(&ab.0), self.operand(&ab.1))
            }
            Rvalue::UnaryOp(op, a) => format!("{{\"k\":\"un\",\"op\":{},\"a\":{}}}", esc(&format!("{:?}", op)), self.operand(a)),
            Rvalue::Cast(kind, o, t) => format!("{{\"k\":\"cast\",\"ck\":{},\"o\":{},\"ty\":{}}}", esc(&format!("{:?}", kind)), self.operand(o), esc(&format!("{}", t))),
            Rvalue::Discriminant(p) => format!("{{\"k\":\"discr\",\"pl\":{},\"ty\":{}}}", self.place(p), esc(&format!("{}", p.ty(&self.body.local_decls, self.tcx).ty))),
            Rvalue::CopyForDeref(p) => format!("{{\"k\":\"use\",\"o\":{{\"k\":\"copy\",\"pl\":{}}}}}", self.place(p)),
            Rvalue::Aggregate(kind, fields) => {
                let refs: Vec<&Operand<'tcx>> = fields.iter().collect();
                let (what, names) = match &**kind {
                    AggregateKind::Adt(did, vidx, _, _, _) => {
                        let def = self.tcx.adt_def(*did);
                        let var = def.variant(*vidx);
                        let names: Vec<String> = var.fields.iter().map(|f| f.name.to_string()).collect();
                        (format!("adt:{}::{}", dpath(self.tcx, *did), var.name), names)
                    }
                    AggregateKind::Tuple => ("tuple".to_string(), vec![]),
                    AggregateKind::Array(_) => ("array".to_string(), vec![]),
                    AggregateKind::Closure(did, _) => (format!("closure:{}", dpath(self.tcx, *did)), vec![]),
                    _ => ("other".to_string(), vec![]),
                };
                let ns: Vec<String> = names.iter().map(|n| esc(n)).collect();
                format!("{{\"k\":\"agg\",\"what\":{},\"names\":[{}],\"ops\":{}}}", esc(&what), ns.join(","), self.ops(&refs))
            }
            Rvalue::Repeat(o, _) => format!("{{\"k\":\"repeat\",\"o\":{}}}", self.operand(o)),
            other => format!("{{\"k\":\"other\",\"s\":{}}}", esc(&format!("{:?}", other))),
        }
    }
}

fn span_str(tcx: TyCtxt<'_>, sp: rustc_span::Span) -> String {
    let sm = tcx.sess.source_map();
    let lo = sm.lookup_char_pos(sp.lo());
    format!("{}:{}", lo.file.name.prefer_local_unconditionally(), lo.line)
}

struct Cb;
impl Callbacks for Cb {
    fn after_analysis<'tcx>(&mut self, _c: &rustc_interface::interface::Compiler, tcx: TyCtxt<'tcx>) -> Compilation {
        let krate = tcx.crate_name(LOCAL_CRATE).to_string();
        let out = std::env::var("MLSFACTS_OUT").unwrap_or("/tmp/mlsfacts_out".into());
        std::fs::create_dir_all(&out).ok();
        let mut buf = String::new();
        let stamp = std::env::var("MLSFACTS_STAMP").unwrap_or_default();
        let _ = writeln!(buf, "{{\"rec\":\"meta\",\"crate\":{},\"stamp\":{}}}", esc(&krate), esc(&stamp));
        // ADTs
        for ldid in tcx.hir_crate_items(()).definitions() {
            let did = ldid.to_def_id();
            let kind = tcx.def_kind(did);
            if !matches!(kind, DefKind::Struct | DefKind::Enum) { continue; }
            let def = tcx.adt_def(did);
            let mut vs = Vec::new();
            for (vidx, var) in def.variants().iter_enumerated() {
                let discr = if def.is_enum() { format!("{}", def.discriminant_for_variant(tcx, vidx).val) } else { "0".into() };
                let fs: Vec<String> = var.fields.iter().map(|f| {
                    let t = tcx.type_of(f.did).instantiate_identity().skip_norm_wip();
                    format!("{{\"name\":{},\"ty\":{}}}", esc(&f.name.to_string()), esc(&format!("{}", t)))
                }).collect();
                vs.push(format!("{{\"name\":{},\"discr\":{},\"fields\":[{}]}}", esc(&var.name.to_string()), esc(&discr), fs.join(",")));
            }
            let _ = writeln!(buf, "{{\"rec\":\"adt\",\"path\":{},\"kind\":{},\"variants\":[{}],\"loc\":{}}}",
                esc(&dpath(tcx, did)), esc(&format!("{:?}", kind)), vs.join(","), esc(&span_str(tcx, tcx.def_span(did))));
        }
        let mut nbodies = 0;
        for ldid in tcx.mir_keys(()) {
            let did = ldid.to_def_id();
            let kind = tcx.def_kind(did);
            if !matches!(kind, DefKind::Fn | DefKind::AssocFn | DefKind::Closure) { continue; }
            let body = tcx.optimized_mir(did);
            nbodies += 1;
            let tenv = TypingEnv::post_analysis(tcx, did);
            let cx = Ctx { tcx, body, tenv };
            // container info
            let mut cont = String::from("null");
            if let Some(ai) = tcx.opt_associated_item(did) {
                let cdid = ai.container_id(tcx);
                match tcx.def_kind(cdid) {
                    DefKind::Trait => {
                        cont = format!("{{\"kind\":\"trait\",\"trait\":{},\"name\":{}}}", esc(&dpath(tcx, cdid)), esc(&ai.name().to_string()));
                    }
                    DefKind::Impl { of_trait } => {
                        let self_ty = tcx.type_of(cdid).instantiate_identity().skip_norm_wip();
                        let tr = if of_trait {
                            let tref = tcx.impl_trait_ref(cdid).instantiate_identity().skip_norm_wip();
                            format!("{}", dpath(tcx, tref.def_id))
                        } else { String::new() };
                        cont = format!("{{\"kind\":\"impl\",\"trait\":{},\"self\":{},\"self_head\":{},\"name\":{}}}",
                            esc(&tr), esc(&format!("{}", self_ty)), esc(&ty_head(tcx, self_ty)), esc(&ai.name().to_string()));
                    }
                    _ => {}
                }
            }
            let dspan = tcx.def_span(did);
            let mut mac = String::new();
            if dspan.from_expansion() {
                let ed = dspan.ctxt().outer_expn_data();
                mac = format!("{:?}", ed.kind);
            }
            let parent = if matches!(kind, DefKind::Closure) { dpath(tcx, tcx.parent(did)) } else { String::new() };
            let sig_out = if !matches!(kind, DefKind::Closure) {
                let sig = tcx.fn_sig(did).instantiate_identity().skip_norm_wip();
                format!("{}", sig.output().skip_binder())
            } else { format!("{}", body.local_decls[rustc_middle::mir::RETURN_PLACE].ty) };
            let vis = if matches!(kind, DefKind::Fn | DefKind::AssocFn) { format!("{:?}", tcx.visibility(did)) } else { String::new() };
            // generic type params in substitution order (parents first)
            let mut gen_names: Vec<String> = Vec::new();
            {
                let mut chain = Vec::new();
                let mut cur = Some(did);
                while let Some(d) = cur { let g = tcx.generics_of(d); chain.push(g); cur = g.parent; }
                chain.reverse();
                for g in chain { for p in &g.own_params { if matches!(p.kind, ty::GenericParamDefKind::Type { .. }) { gen_names.push(esc(&p.name.to_string())); } } }
            }
            let mut locals = Vec::new();
            for (l, d) in body.local_decls.iter_enumerated() {
                locals.push(format!("{{\"i\":{},\"ty\":{},\"head\":{}}}", l.as_usize(), esc(&format!("{}", d.ty)), esc(&ty_head(tcx, d.ty))));
            }
            let mut dbg = Vec::new();
            for v in &body.var_debug_info {
                if let rustc_middle::mir::VarDebugInfoContents::Place(p) = &v.value {
                    dbg.push(format!("{{\"name\":{},\"pl\":{}}}", esc(&v.name.to_string()), cx.place(p)));
                }
            }
            let mut blocks = Vec::new();
            for (_bb, data) in body.basic_blocks.iter_enumerated() {
                let mut sts = Vec::new();
                for st in &data.statements {
                    if let StatementKind::Assign(b) = &st.kind {
                        let (pl, rv) = &**b;
                        sts.push(format!("{{\"lhs\":{},\"rv\":{},\"ln\":{}}}", cx.place(pl), cx.rvalue(rv), esc(&span_str(tcx, st.source_info.span))));
                    }
                }
                let term = data.terminator();
                let sp = term.source_info.span;
                let loc = span_str(tcx, sp);
                let exp = sp.from_expansion();
                let t = match &term.kind {
                    TerminatorKind::Goto { target } => format!("{{\"k\":\"goto\",\"t\":{}}}", target.as_usize()),
                    TerminatorKind::SwitchInt { discr, targets } => {
                        let mut ts = Vec::new();
                        for (v, t) in targets.iter() { ts.push(format!("[{},{}]", esc(&format!("{}", v)), t.as_usize())); }
                        format!("{{\"k\":\"switch\",\"d\":{},\"ts\":[{}],\"o\":{}}}", cx.operand(discr), ts.join(","), targets.otherwise().as_usize())
                    }
                    TerminatorKind::Return => "{\"k\":\"return\"}".to_string(),
                    TerminatorKind::Unreachable => "{\"k\":\"unreachable\"}".to_string(),
                    TerminatorKind::UnwindResume | TerminatorKind::UnwindTerminate(_) => "{\"k\":\"resume\"}".to_string(),
                    TerminatorKind::Drop { place, target, .. } => format!("{{\"k\":\"drop\",\"pl\":{},\"t\":{}}}", cx.place(place), target.as_usize()),
                    TerminatorKind::Assert { cond, expected, msg, target, .. } => {
                        let mk = match &**msg {
                            AssertKind::BoundsCheck { .. } => "bounds".to_string(),
                            AssertKind::Overflow(op, ..) => format!("overflow:{:?}", op),
                            AssertKind::OverflowNeg(_) => "overflow:Neg".to_string(),
                            AssertKind::DivisionByZero(_) => "divzero".to_string(),
                            AssertKind::RemainderByZero(_) => "remzero".to_string(),
                            AssertKind::MisalignedPointerDereference { .. } => "misaligned".to_string(),
                            AssertKind::NullPointerDereference => "nullptr".to_string(),
                            _ => "other".to_string(),
                        };
                        let detail = match &**msg {
                            AssertKind::Overflow(_, a, b) => format!("[{},{}]", cx.operand(a), cx.operand(b)),
                            AssertKind::BoundsCheck { len, index } => format!("[{},{}]", cx.operand(len), cx.operand(index)),
                            _ => "[]".to_string(),
                        };
                        format!("{{\"k\":\"assert\",\"cond\":{},\"exp\":{},\"mk\":{},\"det\":{},\"t\":{}}}", cx.operand(cond), expected, esc(&mk), detail, target.as_usize())
                    }
                    TerminatorKind::Call { func, args, destination, target, .. } => {
                        let argv: Vec<&Operand<'tcx>> = args.iter().map(|a| &a.node).collect();
                        let mut callee = String::from("null");
                        if let Operand::Constant(c) = func {
                            if let ty::FnDef(cdid, cargs) = c.const_.ty().kind() {
                                let mut gargs = Vec::new();
                                for ga in cargs.iter() {
                                    if let GenericArgKind::Type(t) = ga.kind() {
                                        gargs.push(format!("{{\"s\":{},\"h\":{}}}", esc(&format!("{}", t)), esc(&ty_head(tcx, t))));
                                    }
                                }
                                let mut tr = String::from("null");
                                if let Some(ai) = tcx.opt_associated_item(*cdid) {
                                    let cont = ai.container_id(tcx);
                                    if matches!(tcx.def_kind(cont), DefKind::Trait) {
                                        tr = format!("{{\"trait\":{},\"name\":{}}}", esc(&dpath(tcx, cont)), esc(&ai.name().to_string()));
                                    }
                                }
                                let res = match Instance::try_resolve(tcx, tenv, *cdid, cargs) {
                                    Ok(Some(inst)) => {
                                        let rd = inst.def_id();
                                        let mut rg = Vec::new();
                                        for ga in inst.args.iter() {
                                            if let GenericArgKind::Type(t) = ga.kind() {
                                                rg.push(format!("{{\"s\":{},\"h\":{}}}", esc(&format!("{}", t)), esc(&ty_head(tcx, t))));
                                            }
                                        }
                                        format!("{{\"path\":{},\"local\":{},\"gargs\":[{}],\"ik\":{}}}", esc(&dpath(tcx, rd)), rd.is_local(), rg.join(","), esc(&format!("{:?}", std::mem::discriminant(&inst.def))))
                                    }
                                    _ => "null".to_string(),
                                };
                                callee = format!("{{\"path\":{},\"local\":{},\"gargs\":[{}],\"trait\":{},\"res\":{}}}", esc(&dpath(tcx, *cdid)), cdid.is_local(), gargs.join(","), tr, res);
                            }
                        }
                        let tgt = target.map(|t| t.as_usize() as i64).unwrap_or(-1);
                        format!("{{\"k\":\"call\",\"callee\":{},\"func\":{},\"args\":{},\"dest\":{},\"t\":{}}}", callee, cx.operand(func), cx.ops(&argv), cx.place(destination), tgt)
                    }
                    other => format!("{{\"k\":\"other\",\"s\":{}}}", esc(&format!("{:?}", std::mem::discriminant(other)))),
                };
                blocks.push(format!("{{\"st\":[{}],\"term\":{},\"ln\":{},\"exp\":{},\"cu\":{}}}", sts.join(","), t, esc(&loc), exp, data.is_cleanup));
            }
            let _ = writeln!(buf, "{{\"rec\":\"fn\",\"generics\":[{}],\"path\":{},\"kind\":{},\"cont\":{},\"parent\":{},\"mac\":{},\"ret\":{},\"vis\":{},\"argc\":{},\"loc\":{},\"locals\":[{}],\"dbg\":[{}],\"blocks\":[{}]}}",
                gen_names.join(","), esc(&dpath(tcx, did)), esc(&format!("{:?}", kind)), cont, esc(&parent), esc(&mac), esc(&sig_out), esc(&vis), body.arg_count,
                esc(&span_str(tcx, dspan)), locals.join(","), dbg.join(","), blocks.join(","));
        }
        let fname = format!("{}/{}.{}.jsonl", out, krate, std::process::id());
        let mut f = std::fs::File::create(&fname).unwrap();
        f.write_all(buf.as_bytes()).unwrap();
        eprintln!("mlsfacts: crate {} bodies {} -> {}", krate, nbodies, fname);
        Compilation::Continue
    }
}

fn main() {
    let mut args: Vec<String> = std::env::args().collect();
    args.remove(1);
    run_compiler(&args, &mut Cb);
}
