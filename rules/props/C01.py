"""C01 -- all members that process the same commits reach the same epoch state."""
import re

from ..core.engine import Res
from ..core.rules import who_writes, wire, install, must_pass, order, assigns, field_writes, owner_qual
from ..core.origins import Origins

CONFIGS = {'quick': ['A'], 'thorough': ['A', 'B', 'C', 'D']}
LEVEL = 'other'
TECHNIQUE = ('who-may-write query and arithmetic shape of the epoch counter, sibling comparison of the committer / receiver / joiner '
             'pipelines by def-use wiring of their shared arguments, installation completeness of the new epoch, exhaustiveness of the key '
             'derivation loops of committer, receiver and joiner')
EXPLANATION = ('EPOCH: GroupContext.epoch is written by exactly one function outside constructors and codec, as epoch + 1, and both '
               'commit paths take their new context from it. ONE-PIPELINE: committer (commit_internal), receiver (process_commit + '
               'update_key_schedule) and joiner (from_welcome_message) each run transcript hash -> key schedule -> confirmation tag -> '
               'interim transcript hash with the same argument wiring: previous interim hash, init secret (or external init), commit '
               'secret from encap / decap / empty, the provisional context carrying the tree hash of the edited tree and the new '
               'confirmed transcript hash, the secret-tree size of the provisional tree, the PSK secret. INSTALL: every component of '
               'the provisional state is installed (epoch secrets, context, interim hash, key schedule, tree, confirmation tag; '
               'proposal cache, pending updates and pending commit reset; private tree) and a pending commit installs state, epoch '
               'secrets, private tree, key schedule and signer. Equality of the derived values over histories is not decided.')
EXPLANATION += ' FAIL-ATOMIC (restricted): no component of the epoch state is written while the operation that changes the epoch can still fail. EXHAUSTIVE-LOOP / SIBLING: committer, receiver and joiner derive a key for every unfiltered node of the path.'
ASSUMPTIONS = ['TreeKEM resolution / LCA / filtered-path arithmetic is value-level (not decided)']


def run(ctx):
    P = ctx.P
    cfg = ctx.config
    full = cfg != 'B'
    # ---- epoch counter
    ctx.check('WHO-WRITES', 'epoch counter has one writer',
              lambda P_: who_writes(P_, 'mls_rs_core::group::context::GroupContext', 'epoch',
                                    [r'^GroupState::apply_resolved$', r'^GroupContext::(new|new_with_epoch)$', r'^GroupContext as (Clone|MlsDecode|Default)::',
                                     r'^GroupBuilder::build$']), floor=2)

    def plus_one(P_):
        r = Res()
        a = assigns(P_, 'GroupState::apply_resolved', r'\.epoch$')
        for bi, ln, ps, src in a:
            r.site('apply_resolved @%s %s = %s' % (ln, ps, src))
            if not re.search(r'^\(self\.context\.epoch AddWithOverflow const 1\)\.0$', src):
                r.bad('epoch-arithmetic', 'the new epoch is computed as `%s`, expected current epoch + 1' % src, where=[ln])
        if len(a) != 1:
            r.bad('epoch-writes', 'apply_resolved writes the epoch %d times, expected once' % len(a))
        return r
    ctx.check('EPOCH', 'epoch advances by exactly one per applied commit', plus_one, floor=1)
    CI, PC, UK, W = 'Group::commit_internal', 'MessageProcessor::process_commit', 'Group as MessageProcessor::update_key_schedule', 'Group::from_welcome_message'
    AR = r'GroupState::apply_resolved\('
    # ---- committer
    ctx.check('ONE-PIPELINE', 'committer: transcript hash over the previous interim hash',
              lambda P_: wire(P_, CI, r'transcript_hash::create$', 1, r'^self\.state\.interim_transcript_hash$'), floor=1)
    ctx.check('ONE-PIPELINE', 'committer: key schedule continues the current one',
              lambda P_: wire(P_, CI, r'KeySchedule::from_key_schedule$', 0, r'^self\.key_schedule$'), floor=1)
    ctx.check('ONE-PIPELINE', 'committer: commit secret from encap (or empty without path)',
              lambda P_: wire(P_, CI, r'KeySchedule::from_key_schedule$', 1, r'PathSecret::empty\(.*TreeKem::encap\(|TreeKem::encap\(.*PathSecret::empty\('), floor=1)
    ctx.check('ONE-PIPELINE', 'committer: provisional context feeds the key schedule',
              lambda P_: wire(P_, CI, r'KeySchedule::from_key_schedule$', 2, r'^' + AR + r'.*\)\.group_context$'), floor=1)
    if full:
        ctx.check('ONE-PIPELINE', 'committer: secret tree sized by the provisional tree',
                  lambda P_: wire(P_, CI, r'KeySchedule::from_key_schedule$', 3, r'^TreeKemPublic::total_leaf_count\(' + AR + r'.*\)\.public_tree\)$'), floor=1)
    ctx.check('ONE-PIPELINE', 'committer: confirmation tag over the new confirmed transcript hash',
              lambda P_: wire(P_, CI, r'ConfirmationTag::create$', 1, r'^' + AR + r'.*\)\.group_context\.confirmed_transcript_hash$'), floor=1)
    ctx.check('ONE-PIPELINE', 'committer: confirmation key of the new epoch',
              lambda P_: wire(P_, CI, r'ConfirmationTag::create$', 0, r'^KeySchedule::from_key_schedule\(.*\)\.confirmation_key$'), floor=1)
    ctx.check('ONE-PIPELINE', 'committer: interim hash from the new confirmed hash and tag',
              lambda P_: wire(P_, CI, r'InterimTranscriptHash::create$', 2, r'^ConfirmationTag::create\('), floor=1)

    def ctx_updates(P_):
        """the provisional context gets tree_hash from the provisional tree and the new confirmed transcript hash"""
        r = Res()
        a = assigns(P_, CI, r'group_context\.(tree_hash|confirmed_transcript_hash)$')
        got = {}
        for bi, ln, ps, src in a:
            got.setdefault(ps.split('.')[-1], []).append(src)
            r.site('%s @%s %s = %s' % (CI, ln, ps[-45:], src[:70]))
        if not any(re.search(r'^TreeKemPublic::tree_hash\(' + AR, s) for s in got.get('tree_hash', [])):
            r.bad('tree-hash', 'commit_internal no longer sets the context tree hash from the provisional tree (found %s)' % [s[:80] for s in got.get('tree_hash', [])])
        if not any(re.search(r'^transcript_hash::create\(', s) for s in got.get('confirmed_transcript_hash', [])):
            r.bad('confirmed-hash', 'commit_internal no longer sets the confirmed transcript hash from transcript_hash::create')
        return r
    ctx.check('ONE-PIPELINE', 'committer: context carries the new tree hash and confirmed transcript hash', ctx_updates, floor=2)
    # ---- receiver
    ctx.check('ONE-PIPELINE', 'receiver: transcript hashes over the previous interim hash',
              lambda P_: wire(P_, PC, r'util::transcript_hashes$', 1, r'group_state\(self\)\.interim_transcript_hash$'), floor=1)
    ctx.check('ONE-PIPELINE', 'receiver: same two-step transcript computation',
              lambda P_: must_pass(P_, 'util::transcript_hashes', r'transcript_hash::create$'), floor=1)
    ctx.check('ONE-PIPELINE', 'receiver: interim hash from the received confirmation tag',
              lambda P_: wire(P_, 'util::transcript_hashes', r'InterimTranscriptHash::create$', 2, r'content\.auth\.confirmation_tag'), floor=1)

    def rc_ctx(P_):
        r = Res()
        a = assigns(P_, PC, r'group_context\.(tree_hash|confirmed_transcript_hash)$')
        got = {}
        for bi, ln, ps, src in a:
            got.setdefault(ps.split('.')[-1], []).append(src)
            r.site('%s @%s %s = %s' % (PC, ln, ps[-45:], src[:70]))
        if not any(re.search(r'^TreeKemPublic::tree_hash\(' + AR, s) for s in got.get('tree_hash', [])):
            r.bad('tree-hash', 'process_commit no longer sets the context tree hash from the provisional tree')
        if not any(re.search(r'^util::transcript_hashes\(.*\)\.1$', s) for s in got.get('confirmed_transcript_hash', [])):
            r.bad('confirmed-hash', 'process_commit no longer sets the confirmed transcript hash from transcript_hashes(..).1')
        return r
    ctx.check('ONE-PIPELINE', 'receiver: context carries the new tree hash and confirmed transcript hash', rc_ctx, floor=2)
    ctx.check('ONE-PIPELINE', 'receiver: key schedule from the current one or the external init',
              lambda P_: wire(P_, UK, r'KeySchedule::from_key_schedule$', 0, r'derive_for_external\(self\.key_schedule,.*\|self\.key_schedule\}$'), floor=1)
    ctx.check('ONE-PIPELINE', 'receiver: commit secret from decap (or empty without path)',
              lambda P_: wire(P_, UK, r'KeySchedule::from_key_schedule$', 1, r'PathSecret::empty\(.*secrets\.1|secrets\.1.*PathSecret::empty\('), floor=1)
    ctx.check('ONE-PIPELINE', 'receiver: provisional context feeds the key schedule',
              lambda P_: wire(P_, UK, r'KeySchedule::from_key_schedule$', 2, r'^provisional_state\.group_context$'), floor=1)
    if full:
        ctx.check('ONE-PIPELINE', 'receiver: secret tree sized by the provisional tree',
                  lambda P_: wire(P_, UK, r'KeySchedule::from_key_schedule$', 3, r'^TreeKemPublic::total_leaf_count\(provisional_state\.public_tree\)$'), floor=1)
    ctx.check('ONE-PIPELINE', 'receiver: confirmation tag over the new confirmed transcript hash',
              lambda P_: wire(P_, UK, r'ConfirmationTag::create$', 1, r'^provisional_state\.group_context\.confirmed_transcript_hash$'), floor=1)
    ctx.check('ONE-PIPELINE', 'receiver: secrets handed to the key schedule come from apply_update_path',
              lambda P_: wire(P_, PC, r'MessageProcessor::update_key_schedule$', 1, r'MessageProcessor::apply_update_path\('), floor=1)
    ctx.check('ONE-PIPELINE', 'receiver: the state installed is the one the proposals were applied to',
              lambda P_: wire(P_, PC, r'MessageProcessor::update_key_schedule$', 4, r'^' + AR), floor=1)
    # ---- joiner
    ctx.check('ONE-PIPELINE', 'joiner: key schedule over the GroupInfo context',
              lambda P_: wire(P_, W, r'KeySchedule::from_joiner$', 2, r'decrypt_group_info_internal\(.*\)\.0\.group_context$'), floor=1)
    if full:
        ctx.check('ONE-PIPELINE', 'joiner: secret tree sized by the validated tree',
                  lambda P_: wire(P_, W, r'KeySchedule::from_joiner$', 3, r'^TreeKemPublic::total_leaf_count\(util::validate_tree_and_info_joiner\('), floor=1)
    ctx.check('ONE-PIPELINE', 'joiner: interim hash from the GroupInfo confirmed hash and tag',
              lambda P_: must_pass(P_, 'Group::join_with', r'InterimTranscriptHash::create$'), floor=1)
    from .C02 import receiver_exclusion
    ctx.check('SIBLING', 'sender and receiver locate a ciphertext in the resolution by the same exclusion rule', receiver_exclusion, floor=1)
    # the components of the epoch state move together: none of them is written while the operation that changes the epoch can still
    # fail (a member left with the new context and the old secrets, or the reverse, agrees with nobody)
    from ..core.fa_rule import fail_atomic_paths
    ctx.check('FAIL-ATOMIC', 'epoch state (context, tree, transcript, key schedule, epoch secrets) is replaced as a whole',
              fail_atomic_paths(P, ['Group::process_incoming_message', 'Group::process_incoming_message_with_time', 'Group::apply_pending_commit'],
                                r'^state\.(context|public_tree|interim_transcript_hash|confirmation_tag)(\.|$)|^key_schedule(\.|$)|^epoch_secrets(\.(?!secret_tree)|$)|^private_tree(\.|$)',
                                'a commit that fails late leaves a mixed epoch state'), floor=1)
    # every member must end up able to follow the NEXT commit too: committer, receiver and joiner derive a key for every unfiltered
    # node of the path (a joiner that stops early agrees on every public value and then cannot open a later update path)
    from ..core.rules import exhaustive_loop
    from .C09 import generator_condition
    for fq, who in (('TreeKem::encap', 'committer'), ('TreeKem::decap', 'receiver'), ('TreeKemPrivate::update_secrets', 'joiner')):
        ctx.check('EXHAUSTIVE-LOOP', '%s derives keys along its whole direct path' % who, lambda P_, fq=fq: exhaustive_loop(P_, fq), floor=1)
    ctx.check('SIBLING', 'joiner advances the path-secret generator exactly for the unfiltered nodes, as the committer does',
              generator_condition('TreeKemPrivate::update_secrets'), floor=1)
    # ---- installation
    M = {'epoch_secrets': r'from_key_schedule\(.*\)\.epoch_secrets$', 'state.context': r'^provisional_state\.group_context$',
         'state.interim_transcript_hash': r'^interim_transcript_hash$', 'key_schedule': r'from_key_schedule\(.*\)\.key_schedule$',
         'state.public_tree': r'^provisional_state\.public_tree$', 'state.confirmation_tag': r'^ConfirmationTag::create\(',
         'pending_commit': r'Default::default', 'private_tree': r'secrets\.0'}
    if full:
        M['pending_updates'] = r'Default::default'
    ctx.check('INSTALL', 'receiver installs every component of the new epoch', lambda P_: install(P_, UK, M), floor=len(M))
    if full:
        ctx.check('MUST-PASS', 'receiver clears the proposal cache', lambda P_: must_pass(P_, UK, r'ProposalCache::clear$', require_checked=False), floor=1)
    ctx.check('INSTALL', 'a pending commit installs the whole successor state',
              lambda P_: install(P_, 'Group::apply_detached_commit', {'state': r'\.state$', 'epoch_secrets': r'\.epoch_secrets$', 'private_tree': r'\.private_tree$',
                                                                     'key_schedule': r'\.key_schedule$', 'signer': r'\.signer$'}), floor=5)

    def pending_complete(P_):
        """the PendingCommit built by commit_internal carries every field that apply_detached_commit installs"""
        r = Res()
        fn = P_.fn(CI)
        body = P_.body(fn)
        o = Origins(body)
        for b in body.B:
            for st in b['st']:
                rv = st['rv']
                if rv['k'] == 'agg' and rv['what'].endswith('commit::PendingCommit::PendingCommit'):
                    got = {n: o.op_str(op) for n, op in zip(rv['names'], rv['ops'])}
                    for f, rx in (('epoch_secrets', r'from_key_schedule\(.*\)\.epoch_secrets$'), ('key_schedule', r'from_key_schedule\(.*\)\.key_schedule$'),
                                  ('private_tree', r'provisional_private_tree|TreeKem::encap|private_tree'), ('state', r'GroupState')):
                        r.site('PendingCommit.%s <- %s' % (f, got.get(f, '<absent>')[:70]))
                        if not re.search(rx, got.get(f, '')):
                            r.bad('pending:' + f, 'the pending commit stores %s = `%s`, expected /%s/' % (f, got.get(f, '<absent>')[:120], rx), where=[st['ln']])
        if not r.sites:
            r.bad('construct-missing', 'commit_internal no longer builds a PendingCommit')
        return r
    ctx.check('INSTALL', 'the pending commit is built from the new key schedule', pending_complete, floor=4)
