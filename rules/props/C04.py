"""C04 -- a rejected message (or a commit / proposal the member fails to build) leaves the group unchanged.

Rule: FAIL-ATOMIC. For every public `&mut self` operation of Group / ExternalGroup that returns a Result,
and for CommitBuilder::build{,_detached} (state reached through the `group` reference), the set
DIRTY(entry, self) = { state path written, directly or in a callee, from which an error return of the
entry is still CFG-reachable } must be empty, up to the reasoned exemptions below. This is a SUFFICIENT
condition for "state identical after an Err": no Err path carries a write.
"""
import re

from ..core.fa_rule import run_entries, fail_atomic
from ..core.facts import AnchorMissing

CONFIGS = {'quick': ['A'], 'thorough': ['A', 'B', 'C', 'D']}
LEVEL = 'other'
TECHNIQUE = 'interprocedural mod-set x CFG-reachability dataflow over MIR (failure atomicity: no write to member state may be followed by an error return)'
EXPLANATION = ('FAIL-ATOMIC: for each public mutating operation the interprocedural analysis computes which access paths of the '
               'group may be written (assignments, mem::take/replace, collection mutators, &mut escapes to foreign code, '
               'resolved through trait-default bodies with a type-parameter environment) and reports every write from which an '
               'error return is still reachable. A clean report proves the operation failure-atomic for all inputs and all '
               'failure points that are Err returns; each report is a genuine defect, a listed known finding, or a reasoned exemption.')
ASSUMPTIONS = [
    'panics are out of scope of this rule (PANIC-AUDIT under C03/C12/C16)',
    'no unsafe aliasing of Group (mls-rs contains no unsafe code); provider objects hold no reference into the group',
    'access paths are cut at depth 4; writes through foreign functions taking a &mut derived from the group count as writes',
]

# (path regex, writer regex) -> reason. An exemption is exact about the writer: a new writer of the same path is reported.
EXEMPT = {
    (r'^state_repo\.pending_commit\.updates$', r'^GroupStateRepository::get_epoch_mut'):
        'read-through cache: the pushed record is the unmodified stored epoch; dropping it or keeping it is unobservable',
    (r'(^|\.)private_tree\.self_index$', r'^Group::commit_internal$'):
        'written only when external_leaf is Some, i.e. on the throw-away Group built inside ExternalCommitBuilder::build '
        '(WHO-CALLS rule c04.external-leaf-caller pins that caller); the group is dropped on failure',
}

MIN_ENTRIES = {'A': 30, 'B': 10, 'C': 30, 'D': 30}


def entries(P, include_persistence=False):
    out = []
    for f in P.fns.values():
        if f['kind'] != 'AssocFn' or not f['cont'] or f['cont']['kind'] != 'impl' or f['cont']['trait']:
            continue
        sh = f['cont']['self_head']
        if not re.search(r'mls_rs::(group::Group|external_client::group::ExternalGroup)$', sh):
            continue
        if not f['vis'].startswith('Public') or f['argc'] < 1:
            continue
        a1 = f['locals'][1]['ty']
        if not re.match(r"&('\w+ )?mut ", a1):
            continue
        if not re.match(r'(std|core)::result::Result<', f['ret']):
            continue
        if not include_persistence and re.search(r'::write_to_storage', f['qual']):
            continue        # persistence is C15's subject (its partial-progress order is checked there)
        out.append(f['qual'])
    return sorted(set(out))


def run(ctx):
    P = ctx.P
    ents = entries(P)
    builders = [q for q in ('CommitBuilder::build', 'CommitBuilder::build_detached') if P.has_fn(q)]
    sums, fa = run_entries(P, ents + builders)

    def count(P_):
        from ..core.engine import Res
        r = Res()
        for e in ents + builders:
            r.site(e)
        return r
    from ..core.fa_rule import fail_atomic_grouped, mod_paths
    from ..core.engine import Res
    under_map = {b: ['group'] for b in builders}
    groups, used = fail_atomic_grouped(P, ents + builders, sums, EXEMPT, under_map)

    def clean(P_):
        r = Res()
        dirty_entries = set(e for g in groups.values() for e in g['entries'])
        for e in ents + builders:
            n = len(mod_paths(P_, sums[e], 1, under_map.get(e)))
            r.site('%s: %d state path(s) may be written; %s' % (e, n, 'NOT failure-atomic' if e in dirty_entries else 'failure-atomic'))
        r.detail = {'entries': len(ents + builders), 'failure_atomic_entries': len(ents + builders) - len(dirty_entries), 'exemptions_used': used}
        return r
    ctx.check('FAIL-ATOMIC', 'entries analysed', clean, floor=MIN_ENTRIES.get(ctx.config, 10))
    for (path, w), g in sorted(groups.items()):
        def one(P_, path=path, w=w, g=g):
            r = Res()
            for e in sorted(g['entries']):
                r.site(e)
            whys = sorted(set(g['whys']))
            r.bad('write-then-fail',
                  'not failure-atomic: `%s` is written in `%s` and a later step (in %s) can still return an error, in operations: %s (%s)'
                  % (path, w, ', '.join(sorted(g['ffs']))[:300], ', '.join(sorted(g['entries'])), whys[0]), where=whys[:4], members=sorted(g['entries']))
            return r
        ctx.check('FAIL-ATOMIC', 'path=%s|writer=%s' % (path, w), one)
    # the exemption for private_tree.self_index relies on who may pass external_leaf = Some
    from ..core.rules import who_calls
    ctx.check('WHO-CALLS', 'c04.external-leaf-caller',
              lambda P_: who_calls(P_, r'Group::commit_internal$',
                                   [r'^CommitBuilder::(build|build_detached)$', r'^ExternalCommitBuilder::build$',
                                    r'^Group::(commit|commit_detached)$', r'^Group::commit_internal$']), floor=2)
