"""C15 -- a failing storage call never loses or corrupts the group."""
import re

from ..core.engine import Res
from ..core.fa_rule import run_entries, fail_atomic
from ..core.rules import order, checked_calls, must_pass, who_calls
from .C04 import entries as c04_entries

CONFIGS = {'quick': ['A'], 'thorough': ['A', 'B', 'C', 'D']}
LEVEL = 'other'
TECHNIQUE = ('failure-atomicity dataflow (interprocedural mod-sets x CFG reachability over MIR) with the fault points restricted to '
             'calls into the GroupStateStorage / KeyPackageStorage / PreSharedKeyStorage traits; ordering and result-checked queries '
             'on the storage call sites')
EXPLANATION = ('FAIL-ATOMIC(storage): for each public mutating operation of Group, no write to member state may be followed by an '
               'error return that originates (directly or through local callees) in a storage-provider call; a clean report means a '
               'storage fault at any call leaves the member unchanged. STORAGE-CHECKED: every storage call has its Result checked in '
               'place, so a fault surfaces as an error and is never swallowed. ORDER: in write_to_storage the state write precedes '
               'clearing the pending epoch records, which precedes the key-package deletion (retry-safe order). '
               'Retry ending in the same state as a fault-free run is not decided.')
ASSUMPTIONS = ['storage providers are opaque fallible calls without effects on the Group; only Err returns are faults (no panics, no partial writes inside a provider)']

EXEMPT = {
    (r'^state_repo\.pending_commit\.updates$', r'^GroupStateRepository::get_epoch_mut'):
        'read-through cache of the unmodified stored epoch record',
    (r'(^|\.)private_tree\.self_index$', r'^Group::commit_internal$'):
        'external-join only: the Group is the throw-away group of ExternalCommitBuilder::build',
    (r'^state_repo\.(storage|pending_commit\.(inserts|updates))$', r'^GroupStateRepository::write_to_storage$'):
        'write_to_storage is not all-or-nothing by design: once the state write succeeded the pending records are forgotten, and a '
        'later key-package deletion failure is retried by the next write (ORDER rules below pin that order)',
}


def run(ctx):
    P = ctx.P
    ents = c04_entries(P, include_persistence=True)
    builders = [q for q in ('CommitBuilder::build', 'CommitBuilder::build_detached') if P.has_fn(q)]
    sums, fa = run_entries(P, ents + builders, mode='storage')
    from ..core.fa_rule import fail_atomic_grouped, mod_paths
    under_map = {b: ['group'] for b in builders}
    groups, used = fail_atomic_grouped(P, ents + builders, sums, EXEMPT, under_map)

    def clean(P_):
        r = Res()
        dirty_entries = set(e for g in groups.values() for e in g['entries'])
        for e in ents + builders:
            r.site('%s: %s' % (e, 'a storage fault can leave state behind' if e in dirty_entries else 'storage-fault atomic'))
        r.detail = {'entries': len(ents + builders), 'exemptions_used': used}
        return r
    ctx.check('FAIL-ATOMIC(storage)', 'entries analysed', clean, floor=10)
    for (path, w), g in sorted(groups.items()):
        def one(P_, path=path, w=w, g=g):
            r = Res()
            for e in sorted(g['entries']):
                r.site(e)
            whys = sorted(set(g['whys']))
            r.bad('write-then-fail',
                  'a failing storage call leaves the member changed: `%s` is written in `%s` and a storage call that can still fail follows '
                  '(in %s), in operations: %s (%s)' % (path, w, ', '.join(sorted(g['ffs']))[:300], ', '.join(sorted(g['entries'])), whys[0]), where=whys[:4], members=sorted(g['entries']))
            return r
        ctx.check('FAIL-ATOMIC(storage)', 'path=%s|writer=%s' % (path, w), one)
    ctx.check('STORAGE-CHECKED', 'every storage call result is checked in place',
              lambda P_: checked_calls(P_, r'(GroupStateStorage|KeyPackageStorage|PreSharedKeyStorage)::(state|epoch|write|max_epoch_id|get|insert|delete|contains)$',
                                       fn_rx=None), floor=8)
    W = 'GroupStateRepository::write_to_storage'
    ctx.check('ORDER', 'write_to_storage: state write before the pending records are cleared',
              lambda P_: order(P_, W, r'GroupStateStorage::write$', r'::clear$'), floor=2, configs=['A', 'C', 'D'])
    ctx.check('ORDER', 'write_to_storage: pending records cleared before the key package is deleted',
              lambda P_: order(P_, W, r'::clear$', r'KeyPackageStorage::delete$'), floor=1, configs=['A', 'C', 'D'])
    ctx.check('MUST-PASS', 'write_to_storage: the state write is on every success path',
              lambda P_: must_pass(P_, W, r'GroupStateStorage::write$'), floor=1)
    ctx.check('WHO-CALLS', 'only the repository writes group state to storage',
              lambda P_: who_calls(P_, r'GroupStateStorage::write$', [r'^GroupStateRepository::write_to_storage$']), floor=1)
    ctx.check('MUST-PASS', 'prior epoch is archived (storage consulted) before the new epoch is installed',
              lambda P_: must_pass(P_, 'Group as MessageProcessor::update_key_schedule', r'Group::insert_past_epoch$'), floor=1)
