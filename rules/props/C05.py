"""C05 -- message keys are single-use: no nonce reuse, no replay, reordering tolerated within the window."""
import re

from ..core.engine import Res
from ..core.rules import exhaustive_loop
from ..core.rules import (who_calls, wire, guard, install, order, pair, field_discipline, arm_wiring, must_pass,
                          assigns, operates_in_place)
from ..core.origins import Origins

CONFIGS = {'quick': ['A'], 'thorough': ['A', 'C', 'D']}     # configuration B has no private_message feature
LEVEL = 'other'
TECHNIQUE = ('who-may-call and who-may-access queries on AEAD calls and key stores, def-use wiring of key / nonce / reuse-guard '
             'arguments, take/put pairing on all exits, variant-arm wiring of the handshake / application ratchets, guard extraction, '
             'ownership trace of the state handed to the cipher (no temporary copy), reachability of the lookup tiers')
EXPLANATION = ('WHO-CALLS: aead_seal / aead_open are called only by MessageKey, SenderDataKey and WelcomeSecret; a MessageKey is built '
               'only in CiphertextProcessor::seal / open from the key the ratchet just handed out. WIRE: key and nonce of one AEAD '
               'call come from the same MessageKeyData, the nonce passes through the reuse guard, the reuse guard is fresh '
               '(ReuseGuard::random) and is the one published in the sender data together with the generation of that key. '
               'FIELD-DISCIPLINE: the skipped-key history and the secret-tree node store are touched only through consuming '
               'accessors (remove_entry / remove) and insert, so a generation key or node secret cannot be handed out twice. '
               'INSTALL/ORDER: every successful ratchet step replaces the secret and increments the generation after deriving key and '
               'nonce. PAIR: a leaf ratchet taken from the tree is put back on every exit. ARM-WIRING: handshake and application key '
               'types select distinct ratchets on both the send and the receive side. GUARD: the out-of-order window. '
               'IN-PLACE: the ciphertext processor is handed a &mut into the stored epoch state (the group, or the record held by the repository), '
               'never a temporary copy, so a consumed key stays consumed. TIERED-LOOKUP: a late message is served the prior epoch it names from '
               'whichever tier holds it (plain guarded offset into the unwritten epochs, linear equality search of the cached ones, storage). '
               'Uniqueness of derived bytes and behaviour under delivery permutations are not decided.')
ASSUMPTIONS = ['KDF outputs for distinct (secret, label, generation) are distinct (cryptographic assumption)']


def run(ctx):
    P = ctx.P
    from .repo_lookup import tiered_lookup, unordered_updates_cache
    ctx.check('TIERED-LOOKUP', 'late messages: the prior epoch served is exactly the one asked for', tiered_lookup('GroupStateRepository::get_epoch_mut'), floor=2)
    ctx.check('TIERED-LOOKUP', 'the cached prior epochs are searched linearly by equality (the list is not ordered by epoch)', unordered_updates_cache, floor=1)
    ctx.check('EXHAUSTIVE-LOOP', 'every node on the way down to the leaf is consumed', lambda P_: exhaustive_loop(P_, 'SecretTree::take_leaf_ratchet'), floor=1)
    cfg = ctx.config
    ctx.check('WHO-CALLS', 'aead_seal callers',
              lambda P_: who_calls(P_, r'CipherSuiteProvider::aead_seal$', [r'^MessageKey::encrypt$', r'^SenderDataKey::seal$', r'^WelcomeSecret::encrypt$'],
                                   crates=('mls_rs',)), floor=3)
    ctx.check('WHO-CALLS', 'aead_open callers',
              lambda P_: who_calls(P_, r'CipherSuiteProvider::aead_open$', [r'^MessageKey::decrypt$', r'^SenderDataKey::open$', r'^WelcomeSecret::decrypt$'],
                                   crates=('mls_rs',)), floor=3)
    ctx.check('WHO-CALLS', 'MessageKey construction',
              lambda P_: who_calls(P_, r'MessageKey::new$', [r'^CiphertextProcessor::(seal|open)$']), floor=2)
    ctx.check('WHO-CALLS', 'sending keys come from the ratchet step only',
              lambda P_: who_calls(P_, r'SecretTree::next_message_key$', [r'^CiphertextProcessor::next_encryption_key$', r'^Group::next_encryption_key$',
                                                                             r'^SecretTree::next_message_key$']), floor=1)
    for fq, callee in (('MessageKey::encrypt', r'CipherSuiteProvider::aead_seal$'), ('MessageKey::decrypt', r'CipherSuiteProvider::aead_open$')):
        ctx.check('WIRE', fq + ': key', lambda P_, fq=fq, callee=callee: wire(P_, fq, callee, 1, r'^self\.0\.key$'), floor=1)
        ctx.check('WIRE', fq + ': nonce through the reuse guard',
                  lambda P_, fq=fq, callee=callee: wire(P_, fq, callee, 4, r'^ReuseGuard::apply\(reuse_guard, self\.0\.nonce\)$'), floor=1)
    S = 'CiphertextProcessor::seal'
    ctx.check('WIRE', 'seal: message key is the ratchet output of this call',
              lambda P_: wire(P_, S, r'MessageKey::new$', 0, r'^CiphertextProcessor::next_encryption_key\(self'), floor=1)
    ctx.check('WIRE', 'seal: reuse guard is fresh randomness',
              lambda P_: wire(P_, S, r'MessageKey::encrypt$', 4, r'ReuseGuard::random\('), floor=1)
    ctx.check('WIRE', 'seal: sender data carries the same generation and reuse guard',
              lambda P_: wire(P_, S, r'SenderDataKey::seal$', 1,
                              r'generation: CiphertextProcessor::next_encryption_key\(.*\)\.generation, reuse_guard: .*(ReuseGuard::random|_\d+)'), floor=1)
    ctx.check('MUST-PASS', 'seal: one ratchet step per encryption',
              lambda P_: must_pass(P_, S, r'CiphertextProcessor::next_encryption_key$', before_rx=r'MessageKey::encrypt$'), floor=1)
    O = 'CiphertextProcessor::open'
    ctx.check('WIRE', 'open: message key is the ratchet key of the announced generation',
              lambda P_: wire(P_, O, r'MessageKey::new$', 0, r'^CiphertextProcessor::decryption_key\(self'), floor=1)
    ctx.check('WIRE', 'open: generation comes from the authenticated sender data',
              lambda P_: wire(P_, O, r'CiphertextProcessor::decryption_key$', 3, r'open_sender_data\(.*\)\.generation'), floor=1)
    ctx.check('WIRE', 'open: reuse guard comes from the authenticated sender data',
              lambda P_: wire(P_, O, r'MessageKey::decrypt$', 4, r'open_sender_data\(.*\)\.reuse_guard'), floor=1)
    # a key handed out must be consumed in the STORED ratchet (current epoch: the group; prior epoch: the record held by the
    # repository), not in a copy that is dropped afterwards -- otherwise the same ciphertext opens again
    ctx.check('IN-PLACE', 'decryption consumes keys of the stored epoch state, not of a temporary copy',
              lambda P_: operates_in_place(P_, 'Group::decrypt_incoming_ciphertext', r'CiphertextProcessor::new$', 0,
                                           'the ciphertext processor that opens the message'), floor=1)
    ctx.check('IN-PLACE', 'encryption advances the ratchet of the group, not of a temporary copy',
              lambda P_: operates_in_place(P_, 'Group::create_ciphertext', r'CiphertextProcessor::new$', 0,
                                           'the ciphertext processor that seals the message'), floor=1)
    # consuming accessors
    ctx.check('FIELD-DISCIPLINE', 'skipped-key history is consumed on hand-out',
              lambda P_: field_discipline(P_, 'SecretKeyRatchet', 'history',
                                          [r'^HashMap::(remove_entry|remove|insert|values|len|is_empty)$', r'^BTreeMap::(remove_entry|remove|insert|values)$',
                                           r'^Clone::clone$', r'^PartialEq::(eq|ne)$', r'^Debug::fmt$', r'^Vec::(push|retain|iter)$']), floor=2)
    ctx.check('FIELD-DISCIPLINE', 'secret-tree nodes are consumed on use',
              lambda P_: field_discipline(P_, 'TreeSecretsVec', 'inner',
                                          [r'^HashMap::(remove|insert)$', r'^Vec::(resize|len)$', r'^Clone::clone$', r'^PartialEq::(eq|ne)$', r'^Debug::fmt$',
                                           r'^Mls(Size|Encode|Decode)::', r'^Option::take$', r'IndexMut::index_mut$', r'^Vec::get_mut$']), floor=2)
    ctx.check('WHO-CALLS', 'node secrets leave the store only through take_node',
              lambda P_: who_calls(P_, r'TreeSecretsVec::take_node$', [r'^SecretTree::(consume_node|take_leaf_ratchet)$']), floor=2)
    # ratchet step
    R = 'SecretKeyRatchet::next_message_key'
    ctx.check('INSTALL', 'ratchet step replaces the secret and increments the generation',
              lambda P_: install(P_, R, {'secret': r'SecretKeyRatchet::derive_secret\(self, cipher_suite_provider, const b"secret"',
                                         'generation': r'^\(self\.generation AddWithOverflow const 1\)\.0$'}), floor=2)

    def step_order(P_):
        fn = P_.fn(R)
        body = P_.body(fn)
        o = Origins(body)
        r = Res()
        calls = body.calls_named(r'SecretKeyRatchet::derive_secret$')
        labels = {}
        for bi, t in calls:
            labels[o.arg_str(t, 2)] = bi
            r.site('%s @%s %s' % (R, body.ln(bi), o.arg_str(t, 2)))
        need = ['const b"nonce"', 'const b"key"', 'const b"secret"']
        for n in need:
            if n not in labels:
                r.bad('label-missing:' + n, '`%s` no longer derives with label %s' % (R, n), where=[fn['loc']])
        if r.violations:
            return r
        sec_assign = [a for a in assigns(P_, R, r'^self\.secret$')]
        for bi, ln, ps, src in sec_assign:
            for n in need[:2]:
                if not body.dominates(labels[n], bi):
                    r.bad('secret-replaced-early', 'in `%s` the ratchet secret is replaced before %s is derived from it' % (R, n), where=[ln])
        return r
    ctx.check('ORDER', 'key and nonce are derived before the secret is replaced', step_order, floor=3)
    ctx.check('GUARD', 'future-generation window',
              lambda P_: guard(P_, 'SecretKeyRatchet::get_message_key', '>', r'^generation$', r'self\.generation AddWithOverflow const 1024', 'InvalidFutureGeneration'), floor=1)
    ctx.check('WIRE', 'past generations come out of the history by removal',
              lambda P_: wire(P_, 'SecretKeyRatchet::get_message_key', r'HashMap::remove_entry$|BTreeMap::remove_entry$', 1, r'generation'), floor=1, configs=['A', 'C', 'D'])
    # take / put pairing
    for fq in ('SecretTree::next_message_key', 'SecretTree::message_key_generation'):
        ctx.check('PAIR', fq + ': leaf ratchet put back on every exit',
                  lambda P_, fq=fq: pair(P_, fq, r'SecretTree::take_leaf_ratchet$', r'TreeSecretsVec::set_node$'), floor=1)
    # handshake vs application
    ctx.check('ARM-WIRING', 'sending ratchet per key type',
              lambda P_: arm_wiring(P_, 'SecretRatchets::next_message_key', 'KeyType',
                                    {'Handshake': r'^self\.handshake$', 'Application': r'^self\.application$'},
                                    call_rx=r'SecretKeyRatchet::next_message_key$'), floor=2)
    ctx.check('ARM-WIRING', 'receiving ratchet per key type',
              lambda P_: arm_wiring(P_, 'SecretRatchets::message_key_generation', 'KeyType',
                                    {'Handshake': r'^self\.handshake$', 'Application': r'^self\.application$'},
                                    call_rx=r'SecretKeyRatchet::get_message_key$'), floor=2)
    for fq in (S, O):
        ctx.check('ARM-WIRING', fq + ': content type selects the key type',
                  lambda P_, fq=fq: arm_wiring(P_, fq, 'ContentType', {'Application': r'^Application$'}, what='agg', call_rx=r'KeyType::'), floor=1)

    ctx.check('ARM-WIRING', 'handshake and application ratchets use distinct labels',
              lambda P_: arm_wiring(P_, 'SecretKeyRatchet::new', 'KeyType',
                                    {'Handshake': r'^const b"handshake"$', 'Application': r'^const b"application"$'},
                                    call_rx=r'as_slice$'), floor=2)
