"""C03 -- any modification or forgery of protocol traffic is rejected (error, never panic, never acceptance).

Decided statically: every authenticity check is present, its result is checked, it lies on every path to
acceptance; the failing side of each comparison cannot reach acceptance; what is signed / MACed / bound as AAD
covers every field; the error-variant inventory of the verification pipeline; panic-site audit of the attack surface.
"""
import json
import os
import re

from ..core.engine import Res
from ..core.rules import (struct_map, must_pass, must_pass_from, guard, wire, order, covers, writes_after_guard, errset)
from ..core.fa_rule import fa_for
from ..core.panics import panic_audit, TABLES

CONFIGS = {'quick': ['A'], 'thorough': ['A', 'B', 'C', 'D']}
LEVEL = 'other'
TECHNIQUE = ('must-pass-through / dominance queries over per-function CFGs, guard extraction with normalised failing relations, '
             'def-use wiring of signed/MACed/AAD inputs, error-variant and guard inventories, panic-site audit over the call graph')
EXPLANATION = ('MUST-PASS: each verification step (metadata admission, membership tag, signature, sender-data and content AEAD, '
               'padding, update-path validation, parent hashes, tree validation, GroupInfo signature, confirmation tag, public-key '
               'match) is called on every path to a success return of its caller and its Err outcome cannot reach that return. '
               'GUARD: comparisons have the expected failing relation, operands and error. COVERS: the to-be-signed / MAC / AAD '
               'structures carry every field of the message they protect, wired from the same field. INVENTORY: every guard / '
               'error construction of the verification pipeline confirmed on the reviewed tree is still present. PANIC-AUDIT: no '
               'function reachable from the attack surface has more undischarged potential panic sites than the reviewed baseline. '
               'These are necessary conditions of "forgery is rejected"; byte-level coverage of every message is not decided.')
ASSUMPTIONS = [
    'the cryptographic primitives behind CipherSuiteProvider are correct (verify / open fail on modified input)',
    'guard and error inventories are the instances confirmed on the reviewed tree (rules/tables/*.json); additions are not constrained',
]

VERIFY_FNS = (r'^(message_verifier::|MessageProcessor::(check_metadata|validate_welcome|validate_key_package|process_commit|'
              r'get_event_from_incoming_message)$|Group as MessageProcessor::(update_key_schedule|verify_plaintext_authentication|'
              r'process_ciphertext)$|Group::(from_welcome_message|decrypt_group_info_internal|decrypt_incoming_ciphertext)$|'
              r'CiphertextProcessor::open|PrivateMessageContent::mls_decode$|util::validate_|TreeValidator::|tree_validator::|'
              r'TreeKemPublic::(validate_|update_parent_hashes|import_node_data|apply_update_path)|update_path::validate_update_path|'
              r'TreeKem::decap$|TreeKemPrivate::update_secrets$|LeafNodeValidator::|LeafNode::validate_|validator::validate_key_package|'
              r'Signable::verify$|ExternalGroup::join$|ExternalCommitBuilder::build$|KeyPackage::to_reference$|NodeVec::validate_index$|'
              r'ExternalSendersExt::verify_all|MessageKey::decrypt|SenderDataKey::open)')


def attack_surface(P):
    cands = ['Group::process_incoming_message', 'Group::process_incoming_message_with_time', 'Client::join_group',
             'Client::commit_external', 'ExternalCommitBuilder::build', 'ExternalClient::observe_group',
             'ExternalGroup::process_incoming_message', 'ExternalGroup::process_incoming_message_with_time',
             'MlsMessage::from_bytes', 'Client::examine_welcome_message', 'Client::validate_group_info',
             'Client::load_group_with_ratchet_tree', 'ExternalClient::validate_key_package', 'ExternalGroup::insert_proposal_from_message']
    return [q for q in cands if P.has_fn(q)]


PANIC_SETS = {'attack_surface': (attack_surface, 'the message-processing / join / observe entry points')}

ERR_VARIANTS = ['ProtocolVersionMismatch', 'GroupIdMismatch', 'InvalidEpoch', 'InvalidMembershipTag', 'MembershipTagForNonMember',
                'InvalidSignature', 'InvalidConfirmationTag', 'ParentHashMismatch', 'TreeHashMismatch', 'PubKeyMismatch',
                'CommitMissingPath', 'WelcomeKeyPackageNotFound', 'CantProcessMessageFromSelf', 'LeafNotFound',
                'UnexpectedTrailingBlanks', 'UnmergedLeavesMismatch', 'SameHpkeKey', 'InvalidSuccessor', 'CipherSuiteMismatch',
                'InvalidGroupInfo', 'SignerNotFound']


def _load(name):
    p = os.path.join(TABLES, name)
    return json.load(open(p)) if os.path.exists(p) else {}


def run(ctx):
    P = ctx.P
    cfg = ctx.config
    pm = cfg != 'B'      # private_message feature (ciphertexts) absent in the lite configuration
    MP = [
        ('incoming: event extraction', 'MessageProcessor::process_incoming_message_with_time', r'MessageProcessor::get_event_from_incoming_message$'),
        ('incoming: metadata admission first', 'MessageProcessor::get_event_from_incoming_message', r'MessageProcessor::check_metadata$'),
        ('incoming: every payload kind authenticated', 'MessageProcessor::get_event_from_incoming_message',
         r'MessageProcessor::(verify_plaintext_authentication|process_ciphertext|validate_welcome|validate_key_package)$|util::validate_group_info_member$'),
        ('plaintext: signature', 'message_verifier::verify_plaintext_authentication', r'message_verifier::verify_auth_content_signature$'),
        ('plaintext: member impl delegates', 'Group as MessageProcessor::verify_plaintext_authentication', r'message_verifier::verify_plaintext_authentication$'),
        ('plaintext: observer impl delegates', 'ExternalGroup as MessageProcessor::verify_plaintext_authentication', r'message_verifier::verify_plaintext_authentication$'),
        ('signature: signer lookup', 'message_verifier::verify_auth_content_signature', r'message_verifier::signing_identity_for_sender$'),
        ('signature: verify', 'message_verifier::verify_auth_content_signature', r'Signable::verify$'),
        ('signable: provider verify checked', 'Signable::verify', r'CipherSuiteProvider::verify$'),
        ('welcome: decrypt group info', 'Group::from_welcome_message', r'::decrypt_group_info_internal$'),
        ('welcome: tree and group info validation', 'Group::from_welcome_message', r'util::validate_tree_and_info_joiner$'),
        ('welcome: key schedule', 'Group::from_welcome_message', r'KeySchedule::from_joiner$'),
        ('joiner: tree validation', 'util::validate_tree_and_info_joiner', r'util::validate_tree_joiner$'),
        ('joiner: group info validation', 'util::validate_tree_and_info_joiner', r'util::validate_group_info_joiner$'),
        ('joiner: common group info checks', 'util::validate_group_info_joiner', r'util::validate_group_info_common$'),
        ('group info: signature', 'util::validate_group_info_common', r'Signable::verify$'),
        ('tree joiner: validator', 'util::validate_tree_joiner', r'TreeValidator::validate$'),
        ('tree validator: tree hash', 'TreeValidator::validate', r'::validate_tree_hash$'),
        ('tree validator: parent hashes', 'TreeValidator::validate', r'::validate_parent_hashes$'),
        ('tree validator: trailing blanks', 'TreeValidator::validate', r'::validate_no_trailing_blanks$'),
        ('tree validator: leaves', 'TreeValidator::validate', r'::validate_leaves$'),
        ('tree validator: unmerged', 'TreeValidator::validate', r'tree_validator::validate_unmerged$'),
        ('update path: parent hash verification', 'TreeKemPublic::apply_update_path', r'::update_parent_hashes$'),
        ('update path: leaf validation', 'update_path::validate_update_path', r'LeafNodeValidator::check_if_valid$'),
        ('observer join: validation', 'ExternalGroup::join', r'util::validate_tree_and_info_joiner$'),
        ('group info decryption: hpke open', 'Group::decrypt_group_info_internal', r'HpkeEncryptable::decrypt$'),
        ('commit: proposals applied through the shared pipeline', 'MessageProcessor::process_commit', r'GroupState::apply_resolved$'),
    ]
    if pm:
        MP += [
            ('ciphertext: member impl delegates', 'Group as MessageProcessor::process_ciphertext', r'::decrypt_incoming_ciphertext$'),
            ('ciphertext: AEAD open', 'Group::decrypt_incoming_ciphertext', r'CiphertextProcessor::<.*>::open$|::open$'),
            ('ciphertext: signature after decryption', 'Group::decrypt_incoming_ciphertext', r'message_verifier::verify_auth_content_signature$'),
            ('open: sender data AEAD', 'CiphertextProcessor::open', r'::open_sender_data$'),
            ('open: key lookup', 'CiphertextProcessor::open', r'::decryption_key$'),
            ('open: content AEAD', 'CiphertextProcessor::open', r'MessageKey::decrypt$'),
            ('open: content decode (padding check)', 'CiphertextProcessor::open', r'PrivateMessageContent::mls_decode$'),
        ]
    for name, fq, rx in MP:
        if cfg == 'B' and fq.startswith('ExternalGroup'):
            continue        # configuration B is built without the external_client feature
        ctx.check('MUST-PASS', name, lambda P_, fq=fq, rx=rx: must_pass(P_, fq, rx), floor=1)
    # ordering / conditional must-pass
    ctx.check('MUST-PASS', 'welcome: all checks before the group is created',
              lambda P_: must_pass(P_, 'Group::from_welcome_message', r'util::validate_tree_and_info_joiner$', before_rx=r'::join_with$'), floor=1)
    ctx.check('MUST-PASS', 'external commit: validation before the group is created',
              lambda P_: must_pass(P_, 'ExternalCommitBuilder::build', r'util::validate_tree_and_info_joiner$', before_rx=r'::join_with$'), floor=1)
    ctx.check('WIRE', 'commit: the update path that is applied is the validated one',
              lambda P_: wire(P_, 'MessageProcessor::process_commit', r'MessageProcessor::apply_update_path$', 2,
                              r'update_path::validate_update_path\('), floor=1)
    ctx.check('WIRE', 'welcome: path secret checked against the validated tree',
              lambda P_: wire(P_, 'Group::from_welcome_message', r'TreeKemPrivate::update_secrets$', 4,
                              r'validate_tree_and_info_joiner'), floor=1)
    ctx.check('ORDER', 'commit: key schedule only after proposals applied',
              lambda P_: order(P_, 'MessageProcessor::process_commit', r'GroupState::apply_resolved$', r'MessageProcessor::update_key_schedule$'), floor=1)
    if cfg != 'B':
        ctx.check('MUST-PASS', 'prior epoch: sender key re-validated',
                  lambda P_: must_pass_from(P_, 'Group::decrypt_incoming_ciphertext', r'::get_epoch_mut$',
                                            r'util::validate_sender_signature_key_from_prior_epoch$'), floor=1)
    # guards
    G = [
        ('metadata: version', 'MessageProcessor::check_metadata', '!=', r'message\.version', r'context\.protocol_version', 'ProtocolVersionMismatch'),
        ('metadata: group id', 'MessageProcessor::check_metadata', '!=', r'group_id', r'context\.group_id', 'GroupIdMismatch'),
        ('metadata: handshake epoch is current', 'MessageProcessor::check_metadata', '!=', r'context\.epoch', r'\.epoch', 'InvalidEpoch'),
        ('plaintext: membership tag', 'message_verifier::verify_plaintext_authentication', '!=', r'MembershipTag::create', r'membership_tag', 'InvalidMembershipTag'),
        ('plaintext: tag only from members', 'message_verifier::verify_plaintext_authentication', 'not', r'is_none\(plaintext\.membership_tag\)', None, 'MembershipTagForNonMember'),
        ('commit: confirmation tag', 'Group as MessageProcessor::update_key_schedule', '!=', r'ConfirmationTag::create', r'confirmation_tag', 'InvalidConfirmationTag'),
        ('commit: path required', 'MessageProcessor::process_commit', 'truth', r'is_none\(.*path\)', None, 'CommitMissingPath'),
        ('welcome: confirmation tag', 'Group::from_welcome_message', 'not', r'ConfirmationTag::matches', None, 'InvalidConfirmationTag'),
        ('welcome: key package version', 'Group::decrypt_group_info_internal', '!=', r'key_package\.version', r'welcome\.version', 'ProtocolVersionMismatch'),
        ('decap: derived public key equals announced key', 'TreeKem::decap', '!=', r'to_hpke_key_pair', r'public_key', 'PubKeyMismatch'),
        ('welcome secrets: derived public key equals tree key', 'TreeKemPrivate::update_secrets', '!=', r'PubKeyMismatch|to_hpke_key_pair', r'to_hpke_key_pair|PubKeyMismatch', 'PubKeyMismatch'),
        ('parent hash: leaf parent hash matches', 'TreeKemPublic::update_parent_hashes', 'not', r'ParentHash::matches', None, 'ParentHashMismatch'),
        ('tree hash: equals expected', 'TreeValidator::validate_tree_hash', '!=', r'tree_hash\(', r'expected_tree_hash', 'TreeHashMismatch'),
        ('group info: version', 'util::validate_group_info_common', '!=', r'msg_version', r'protocol_version', 'ProtocolVersionMismatch'),
        ('group info: cipher suite', 'util::validate_group_info_common', '!=', r'cipher_suite', r'cipher_suite', 'CipherSuiteMismatch'),
        ('update path: fresh leaf key', 'update_path::validate_update_path', '==', r'borrow_as_leaf\(.*\)\.public_key', r'path\.leaf_node\.public_key', 'SameHpkeKey'),
        ('update path: valid successor', 'update_path::validate_update_path', 'not', r'valid_successor', None, 'InvalidSuccessor'),
        ('key package: version', 'validator::validate_key_package_properties', '!=', r'package\.version', r'version', 'ProtocolVersionMismatch'),
        ('key package: cipher suite', 'validator::validate_key_package_properties', '!=', r'package\.cipher_suite', r'cipher_suite', 'CipherSuiteMismatch'),
        ('key package: init key differs from leaf key', 'validator::validate_key_package_properties', '==', r'hpke_init_key', r'leaf_node\.public_key', 'InitLeafKeyEquality'),
    ]
    if pm:
        G += [
            ('metadata: application epoch within window', 'MessageProcessor::check_metadata', '<', r'\.1$|epoch', r'min_epoch_available', 'InvalidEpoch'),
            ('metadata: no unencrypted application data', 'MessageProcessor::check_metadata', '==', r'\.2$|content_type', r'.', 'UnencryptedApplicationMessage'),
            ('open: not from self', 'CiphertextProcessor::open', '==', r'self_index', r'open_sender_data\(.*\)\.sender', 'CantProcessMessageFromSelf'),
            ('padding: all zero', 'PrivateMessageContent::mls_decode', 'truth', r'Iterator::any\(reader', None, None),
        ]
    for name, fq, rel, a, b, err in G:
        ctx.check('GUARD', name, lambda P_, fq=fq, rel=rel, a=a, b=b, err=err: guard(P_, fq, rel, a, b, err), floor=1)
    ctx.check('GUARD', 'commit: nothing installed before the confirmation tag matched',
              lambda P_: writes_after_guard(P_, 'Group as MessageProcessor::update_key_schedule', '!=', r'ConfirmationTag::create', r'confirmation_tag'),
              floor=5)
    # wiring
    ctx.check('WIRE', 'update path: parent hashes are verified, not just recomputed',
              lambda P_: wire(P_, 'TreeKemPublic::apply_update_path', r'::update_parent_hashes$', 2, r'^const (1|true)$'), floor=1)
    ctx.check('WIRE', 'observer: membership key is None (only check it may skip)',
              lambda P_: wire(P_, 'ExternalGroup as MessageProcessor::verify_plaintext_authentication',
                              r'message_verifier::verify_plaintext_authentication$', 2, r'Option::None'), floor=1, configs=['A', 'C', 'D'])
    ctx.check('WIRE', 'member: membership key is the epoch membership key',
              lambda P_: wire(P_, 'Group as MessageProcessor::verify_plaintext_authentication',
                              r'message_verifier::verify_plaintext_authentication$', 2, r'Option::Some\{0: self\.key_schedule\.membership_key'), floor=1)
    ctx.check('WIRE', 'signature verified against the group context',
              lambda P_: wire(P_, 'message_verifier::verify_auth_content_signature', r'Signable::verify$', 3, r'MessageSigningContext\{group_context: Option::Some'), floor=1)
    # coverage of signed / MACed / AAD structures
    C = [
        ('key package TBS', 'KeyPackage as Signable::signable_content', 'mls_rs::key_package::KeyPackageData', 'mls_rs::key_package::KeyPackage', ('signature'), None),
        ('leaf node TBS', 'LeafNode as Signable::signable_content', 'LeafNodeTBS', 'LeafNode', ('signature'),
         {'group_id': r'^context\.group_id', 'leaf_index': r'^context\.leaf_index'}),
        ('group info TBS', 'GroupInfo as Signable::signable_content', 'SignableGroupInfo', 'GroupInfo', ('signature'), None),
    ]
    for name, fq, T, S, ex, extra in C:
        ctx.check('COVERS', name, lambda P_, fq=fq, T=T, S=S, ex=ex, extra=extra: covers(P_, fq, T, S, ex, 'self', extra), floor=3)
    if pm:
        ctx.check('COVERS', 'private message AAD',
                  lambda P_: covers(P_, 'PrivateContentAAD as From::from', 'PrivateContentAAD', 'PrivateMessage',
                                    ('encrypted_sender_data', 'ciphertext'), 'ciphertext'), floor=4)
    SM = [
        ('content TBS binds version, wire format, content and group context', 'AuthenticatedContentTBS::from_authenticated_content', 'AuthenticatedContentTBS',
         {'protocol_version': r'^protocol_version$', 'wire_format': r'^auth_content\.wire_format$', 'content': r'^auth_content\.content$',
          'context': r'group_context'}),
        ('membership MAC covers the TBS and the signature / confirmation tag', 'AuthenticatedContentTBM::from_authenticated_content', 'AuthenticatedContentTBM',
         {'content_tbs': r'^AuthenticatedContentTBS::from_authenticated_content\(auth_content', 'auth': r'^auth_content\.auth$'}),
        ('confirmed transcript hash input = wire format, content, signature', 'transcript_hash::create', 'ConfirmedTranscriptHashInput',
         {'wire_format': r'^content\.wire_format$', 'content': r'^content\.content$', 'signature': r'^content\.auth\.signature$'}),
        ('interim transcript hash input = confirmation tag', 'InterimTranscriptHash::create', 'InterimTranscriptHashInput', {'confirmation_tag': r'^confirmation_tag$'}),
    ]
    if pm:
        SM += [
            ('sender-data AAD (receive): group id and epoch of the receiver state, content type of the message', 'CiphertextProcessor::open_sender_data', 'SenderDataAAD',
             {'group_id': r'^GroupStateProvider::group_context\(self\.group_state\)\.group_id$', 'epoch': r'^GroupStateProvider::group_context\(self\.group_state\)\.epoch$',
              'content_type': r'^ciphertext\.content_type$'}),
            ('sender-data AAD (send)', 'CiphertextProcessor::seal', 'SenderDataAAD',
             {'group_id': r'^GroupStateProvider::group_context\(self\.group_state\)\.group_id$', 'epoch': r'^GroupStateProvider::group_context\(self\.group_state\)\.epoch$',
              'content_type': r'^auth_content\.content\.content'}),
            ('content AAD (send) binds group id, epoch, content type, authenticated data', 'CiphertextProcessor::seal', 'PrivateContentAAD',
             {'group_id': r'^auth_content\.content\.group_id$', 'epoch': r'^auth_content\.content\.epoch$', 'content_type': r'^auth_content\.content\.content',
              'authenticated_data': r'^auth_content\.content\.authenticated_data$'}),
            ('encrypted content = content + auth data (signature, confirmation tag)', 'CiphertextProcessor::seal', 'PrivateMessageContent',
             {'content': r'^auth_content\.content\.content$', 'auth': r'^auth_content\.auth$'}),
        ]
    for name, fq, T, mp_ in SM:
        ctx.check('COVERS', name, lambda P_, fq=fq, T=T, mp_=mp_: struct_map(P_, fq, T, mp_, 'self'), floor=len(mp_))
    if pm:
        ctx.check('WIRE', 'content AAD (receive) is rebuilt from the received message',
                  lambda P_: wire(P_, 'CiphertextProcessor::open', r'MlsEncode::mls_encode_to_vec$', 0, r'PrivateContentAAD|ciphertext'), floor=1)
    # inventories
    ents = [q for q in ('Group::process_incoming_message', 'Client::join_group', 'ExternalGroup::process_incoming_message',
                        'ExternalClient::observe_group') if P.has_fn(q)]
    ctx.check('ERRSET', 'verification errors reachable from the attack surface',
              lambda P_: errset(P_, fa_for(P_), ents, [v for v in ERR_VARIANTS if not (cfg == 'B' and v in ('CantProcessMessageFromSelf', 'LeafNotFound'))]),
              floor=15)
    for name, (entsf, label) in PANIC_SETS.items():
        ctx.check('PANIC-AUDIT', name, lambda P_, name=name, entsf=entsf, label=label:
                  panic_audit(P_, entsf(P_), 'panic_%s.json' % name, cfg, label)[0], floor=10)
