"""C18 -- a PSK commit binds the new epoch to knowledge of the PSK."""
import json
import os
import re

from ..core.engine import Res
from ..core.facts import AnchorMissing
from ..core.rules import exhaustive_loop
from ..core.rules import wire, must_pass, guard, errset, checked_calls, guard_inventory, err_inventory, inventory_check
from ..core.origins import Origins
from ..core.fa_rule import fa_for, run_entries, dirty_report
from ..core.panics import TABLES

CONFIGS = {'quick': ['A'], 'thorough': ['A', 'C', 'D']}     # psk feature absent from B
LEVEL = 'other'
TECHNIQUE = ('def-use wiring of the PSK ids and PSK secret through resolver, key schedule and Welcome; guard extraction for the '
             'PSK admission rules; failure atomicity (mod-set x CFG reachability) at the PSK failure points; offset / reachability analysis of '
             'the three-tier resumption-secret lookup')
EXPLANATION = ('WIRE: the PSK secret fed to the key schedule of the new epoch (committer, receiver, joiner) is the one calculated '
               'from exactly the PSK ids of the applied proposals / of the Welcome, resolved in order, each paired with its own '
               'id; the same secret feeds the welcome secret and the ids are published in every GroupSecrets; PskSecret::calculate '
               'binds id, index (from enumerate), count (= length) and the value with the label "derived psk" and chains the '
               'extractions. GUARD: PSK proposal admission (type/usage, nonce length, duplicates, presence). MUST-PASS: a PSK that '
               'cannot be resolved makes resolution fail (MissingRequiredPsk / OldGroupStateNotFound reach the caller). FAIL-ATOMIC: '
               'the failing get_psk step leaves the member unchanged. "Changing any PSK changes every secret" (value level) is not decided.')
EXPLANATION += ' FAIL-ATOMIC (restricted): nothing of the group is written when PSK resolution or the confirmation-tag comparison fails. TIERED-LOOKUP: a resumption PSK id resolves to the secret of exactly the epoch it names.'
ASSUMPTIONS = ['KDF extract / expand are collision resistant']


def _load(name):
    p = os.path.join(TABLES, name)
    return json.load(open(p)) if os.path.exists(p) else {}


def resolver_pairing(P_):
    R = 'PskResolver::resolve'
    fn = P_.fn(R)
    body = P_.body(fn)
    o = Origins(body)
    r = Res()
    for bi, b in enumerate(body.B):
        for st in b['st']:
            rv = st['rv']
            if rv['k'] == 'agg' and rv['what'].endswith('PskSecretInput::PskSecretInput'):
                got = {n: o.op_str(op) for n, op in zip(rv['names'], rv['ops'])}
                r.site('%s @%s id=%s' % (R, st['ln'], got.get('id', '')[:60]))
                if not re.search(r'^Iterator::next\(id\)$', got.get('id', '')):
                    r.bad('id', 'resolved PSK input carries id `%s`, expected the id being resolved' % got.get('id'), where=[st['ln']])
                if not re.search(r'resolve_external\(self, Iterator::next\(id\)\.key_id<External>', got.get('psk', '')) or \
                        not re.search(r'resolve_resumption\(self, Iterator::next\(id\)\.key_id<Resumption>', got.get('psk', '')):
                    r.bad('psk', 'resolved PSK value `%s` is not looked up by the id being resolved' % got.get('psk'), where=[st['ln']])
    return r


def run(ctx):
    P = ctx.P
    from .repo_lookup import tiered_lookup
    ctx.check('TIERED-LOOKUP', 'a resumption PSK id resolves to the secret of exactly that epoch, or to none', tiered_lookup('GroupStateRepository::resumption_secret'), floor=2)
    ctx.check('EXHAUSTIVE-LOOP', 'every PSK of the list is folded into the PSK secret', lambda P_: exhaustive_loop(P_, 'PskSecret::calculate'), floor=1)
    ctx.check('EXHAUSTIVE-LOOP', 'every PSK id of the list is resolved', lambda P_: exhaustive_loop(P_, 'PskResolver::resolve'), floor=1)
    cfg = ctx.config
    U = 'Group as MessageProcessor::update_key_schedule'
    ctx.check('WIRE', 'receiver: PSKs resolved are those of the applied proposals',
              lambda P_: wire(P_, U, r'Group::get_psk$', 1, r'^provisional_state\.applied_proposals\.psks$'), floor=1)
    ctx.check('WIRE', 'receiver: key schedule uses the resolved PSK secret',
              lambda P_: wire(P_, U, r'KeySchedule::from_key_schedule$', 4, r'^Group::get_psk\(self, provisional_state\.applied_proposals\.psks\)\.0$'), floor=1)
    # "a member that lacks a PSK / holds another value / no longer retains the epoch rejects the commit and stays unchanged":
    # on the receive path nothing of the group may have been written when PSK resolution or the confirmation-tag comparison
    # (the point where a wrong PSK value shows) fails. Same analysis as C04, restricted to those failure points.
    def psk_failure_leaves_group_unchanged(P_):
        r = Res()
        ents = [e for e in ('Group::process_incoming_message', 'Group::process_incoming_message_with_time') if P_.has_fn(e)]
        if not ents:
            raise AnchorMissing('Group::process_incoming_message not found')
        sums, _fa = run_entries(P_, ents)
        frx = re.compile(r'update_key_schedule|Group::get_psk|PskResolver::|psk::|resumption_secret')
        seen = set()
        for e in ents:
            r.site('%s: writes of the group x failure points in PSK resolution / key schedule update' % e)
            for (path, w, ff), whys in sorted(dirty_report(P_, sums[e], 1).items()):
                if not frx.search(ff) or (path, w) in seen:
                    continue
                seen.add((path, w))
                r.bad('path=%s|writer=%s' % (path, w),
                      'a commit rejected while its PSKs are resolved or its confirmation tag is compared does not leave the group unchanged: `%s` is '
                      'written in `%s` and `%s` can still fail afterwards (%s)' % (path, w, ff, sorted(set(whys))[0]), where=sorted(set(whys))[:3])
        return r
    ctx.check('FAIL-ATOMIC', 'a commit rejected for its PSKs leaves the group unchanged', psk_failure_leaves_group_unchanged, floor=1)
    CI = 'Group::commit_internal'
    ctx.check('WIRE', 'committer: PSKs resolved are those of the applied proposals',
              lambda P_: wire(P_, CI, r'Group::get_psk$', 1, r'^GroupState::apply_resolved\(.*\)\.applied_proposals\.psks$'), floor=1)
    ctx.check('WIRE', 'committer: key schedule uses the resolved PSK secret',
              lambda P_: wire(P_, CI, r'KeySchedule::from_key_schedule$', 4, r'^Group::get_psk\(self, GroupState::apply_resolved\(.*\)\.0$'), floor=1)
    ctx.check('WIRE', 'committer: welcome secret uses the same PSK secret',
              lambda P_: wire(P_, CI, r'WelcomeSecret::from_joiner_secret$', 2, r'^Group::get_psk\(self, GroupState::apply_resolved\(.*\)\.0$'), floor=1)
    ctx.check('WIRE', 'committer: GroupSecrets publish the PSK ids',
              lambda P_: wire(P_, 'Group::encrypt_group_secrets', r'HpkeEncryptable::encrypt$', 0, r'GroupSecrets::GroupSecrets\{joiner_secret: joiner_secret, .*psks: psks\}'), floor=1)
    ctx.check('WIRE', 'committer: the published ids are the resolved ids',
              lambda P_: _ids_wire(P_), floor=1)
    D = 'Group::decrypt_group_info_internal'
    ctx.check('WIRE', 'joiner: PSK secret computed from the ids in its GroupSecrets',
              lambda P_: wire(P_, D, r'Group::psk_secret$', 2, r'^HpkeEncryptable::decrypt\(.*\)\.psks$'), floor=1)
    ctx.check('WIRE', 'joiner: welcome secret uses that PSK secret',
              lambda P_: wire(P_, D, r'WelcomeSecret::from_joiner_secret$', 2, r'^Group::psk_secret\('), floor=1)
    ctx.check('WIRE', 'joiner: key schedule uses that PSK secret',
              lambda P_: wire(P_, 'Group::from_welcome_message', r'KeySchedule::from_joiner$', 4, r'^Group::decrypt_group_info_internal\(.*\)\.3$'), floor=1)
    ctx.check('WIRE', 'get_psk resolves the ids of the proposals in order',
              lambda P_: wire(P_, 'Group::get_psk', r'PskResolver::resolve_to_secret$', 1, r'Iterator::collect\(Iterator::map\(.*psks'), floor=1)
    R = 'PskResolver::resolve'

    ctx.check('WIRE', 'resolver pairs every id with the value looked up for it', resolver_pairing, floor=1)
    ctx.check('MUST-PASS', 'resolve_to_secret: resolution then calculation', lambda P_: must_pass(P_, 'PskResolver::resolve_to_secret', r'PskResolver::resolve$'), floor=1)
    ctx.check('MUST-PASS', 'resolve_to_secret: calculate', lambda P_: must_pass(P_, 'PskResolver::resolve_to_secret', r'PskSecret::calculate$'), floor=1)
    C = 'PskSecret::calculate'
    ctx.check('WIRE', 'calculate: label binds id, index and count',
              lambda P_: wire(P_, C, r'MlsEncode::mls_encode_to_vec$', 0,
                              r'^PSKLabel::PSKLabel\{id: Iterator::next\(Iterator::enumerate\(input\)\)\.1\.id, index: Iterator::next\(Iterator::enumerate\(input\)\)\.0, '
                              r'count: .*TryFrom::try_from\(\[T\]::len\(input\)\)'), floor=1)
    ctx.check('WIRE', 'calculate: "derived psk" over the extracted PSK value',
              lambda P_: wire(P_, C, r'key_schedule::kdf_expand_with_label$', 2, r'^const b"derived psk"$'), floor=1)
    ctx.check('WIRE', 'calculate: the PSK value is the extracted input',
              lambda P_: wire(P_, C, r'key_schedule::kdf_expand_with_label$', 1, r'kdf_extract\(cipher_suite_provider, vec::from_elem\(const 0, .*\)\.1\.psk\)'), floor=1)
    ctx.check('WIRE', 'calculate: the label is the expand context',
              lambda P_: wire(P_, C, r'key_schedule::kdf_expand_with_label$', 3, r'^MlsEncode::mls_encode_to_vec\(PSKLabel::PSKLabel'), floor=1)

    def chain(P_):
        fn = P_.fn(C)
        body = P_.body(fn)
        o = Origins(body)
        r = Res()
        ex = body.calls_named(r'CipherSuiteProvider::kdf_extract$')
        ok = False
        for bi, t in ex:
            a1, a2 = o.arg_str(t, 1), o.arg_str(t, 2)
            r.site('%s @%s' % (C, body.ln(bi)))
            if a1.startswith('key_schedule::kdf_expand_with_label(') and re.search(r'PskSecret::new\(cipher_suite_provider\)', a2) and 'kdf_extract(' in a2:
                ok = True
        if not ok:
            r.bad('chain', 'PskSecret::calculate no longer chains Extract(derived psk input, previous psk_secret) starting from the all-zero secret')
        return r
    ctx.check('WIRE', 'calculate: extraction chain psk_secret[i] = Extract(psk_input[i], psk_secret[i-1])', chain, floor=2)
    F = 'filtering_common::filter_out_invalid_psks'
    G = [('admission: nonce length', '!=', r'psk_nonce\.0\)', r'kdf_extract_size', 'InvalidPskNonceLength'),
         ('admission: duplicate ids', 'not', r'insert\(.*proposal\.psk\)', None, 'DuplicatePskIds')]
    for name, rel, a, b, err in G:
        ctx.check('GUARD', name, lambda P_, rel=rel, a=a, b=b, err=err: guard(P_, F, rel, a, b, err), floor=1)
    ctx.check('STORAGE-CHECKED', 'PSK store results are checked in place',
              lambda P_: checked_calls(P_, r'PreSharedKeyStorage::(get|contains)$'), floor=2)
    ctx.check('ERRSET', 'PSK errors reach the caller',
              lambda P_: errset(P_, fa_for(P_), ['Group::get_psk', F], ['MissingRequiredPsk', 'OldGroupStateNotFound', 'PskStoreError',
                                                                          'InvalidTypeOrUsageInPreSharedKeyProposal', 'InvalidPskNonceLength', 'DuplicatePskIds']), floor=6)

    def missing_psk_atomic(P_):
        """no state of the receiving member is written before get_psk can fail (C04 analysis restricted to this step)"""
        sums, fa = run_entries(P_, ['Group::process_incoming_message'])
        rep = dirty_report(P_, sums['Group::process_incoming_message'])
        r = Res()
        r.site('Group::process_incoming_message')
        for (path, w, ff), whys in rep.items():
            if ff == U and w == U:
                r.bad('path=%s' % path, 'a commit rejected for a missing / wrong PSK leaves `%s` changed (written in %s before a fallible step)' % (path, w), where=whys[:2])
        return r
    ctx.check('FAIL-ATOMIC', 'rejecting a commit for a missing PSK leaves the member unchanged', missing_psk_atomic, floor=1)


def _ids_wire(P):
    """psks argument of encrypt_group_secrets originates in get_psk(..).1"""
    fn = P.fn('Group::commit_internal')
    r = Res()
    hits = []
    for k in [fn['key']] + P.closures_of(fn['key']):
        f = P.fns[k]
        body = P.body(f)
        o = Origins(body)
        for bi, t in body.calls_named(r'Group::encrypt_group_secrets$'):
            hits.append((f, bi, [o.op_str(a) for a in t['args']]))
    for f, bi, args in hits:
        r.site('%s @%s' % (f['qual'], f['blocks'][bi]['ln']))
        if not any(re.search(r'get_psk\(.*\)\.1|arg1\.\d+|psks|_\d+', a) for a in args):
            r.bad('psk-ids', 'encrypt_group_secrets is not given the resolved PSK ids: %s' % args)
    if not hits:
        r.bad('call-missing', 'commit_internal no longer encrypts group secrets')
    return r
