"""C11 -- pending commits do not change the group until applied; one successor per epoch."""
import re

from ..core.engine import Res
from ..core.fa_rule import run_entries, frame
from ..core.rules import who_writes, guard, wire, install, writes_after_guard, must_pass, order
from ..core.guards import GuardExtractor

CONFIGS = {'quick': ['A'], 'thorough': ['A', 'B', 'C', 'D']}
LEVEL = 'other'
TECHNIQUE = ('frame condition via interprocedural mod-sets over MIR, who-may-write query on Group.pending_commit, '
             'guard extraction and dominance for the pending / epoch admission checks')
EXPLANATION = ('FRAME: the transitive mod-set of building a commit (CommitBuilder::build / build_detached / Group::commit_internal) '
               'on the Group is within {pending_commit, the handshake ratchet of the secret tree, the external-join self index}: '
               'for every input, building a commit writes neither the epoch state, key schedule, private keys nor the signer. '
               'WHO-WRITES: only the listed functions assign Group.pending_commit. GUARD: an existing pending commit / a pending '
               're-init blocks a second commit and dominates the rest of commit_internal; a detached commit is applied only on '
               'the epoch it was built for (group id and epoch + 1), before anything is installed; own commit echo is matched by '
               'message hash; a processed foreign commit resets the pending commit. Interleavings as executed histories are not decided.')
ASSUMPTIONS = ['the handshake-ratchet advance while building an encrypted commit is part of the frame (it is reported under C04 as a minor finding)']

FRAME_ALLOWED = [r'pending_commit', r'epoch_secrets\.secret_tree(\..*)?', r'private_tree\.self_index']


def run(ctx):
    P = ctx.P
    cfg = ctx.config
    entries = ['CommitBuilder::build', 'CommitBuilder::build_detached']
    sums, fa = run_entries(P, entries + ['Group::commit_internal'])
    for e in entries:
        ctx.check('FRAME', e, lambda P_, e=e: frame(P_, e, sums[e], ['group.' + a for a in FRAME_ALLOWED], under=['group']), floor=1)
    ctx.check('FRAME', 'Group::commit_internal', lambda P_: frame(P_, 'Group::commit_internal', sums['Group::commit_internal'], FRAME_ALLOWED), floor=1)
    ctx.check('WHO-WRITES', 'Group.pending_commit',
              lambda P_: who_writes(P_, 'mls_rs::group::Group', 'pending_commit',
                                    [r'^CommitBuilder::(build|build_detached)$', r'^ExternalCommitBuilder::build$',
                                     r'^Group::(apply_pending_commit|apply_pending_commit_backwards_compatible|clear_pending_commit|'
                                     r'apply_detached_commit_backwards_compatible|join_with|from_snapshot|new_created)$',
                                     r'^Group as MessageProcessor::update_key_schedule$', r'^GroupBuilder::build$', r'^Group as Clone::clone$'],
                                    kinds=('assign', 'borrow-mut', 'assign-call-result', 'construct')), floor=5)
    ctx.check('GUARD', 'existing pending commit blocks a second one',
              lambda P_: guard(P_, 'Group::commit_internal', 'not', r'is_none\(self\.pending_commit\)', None, 'ExistingPendingCommit',
                               dominates_rx=r'GroupState::apply_resolved$'), floor=1)
    ctx.check('GUARD', 'no commit after re-init (sender)',
              lambda P_: guard(P_, 'Group::commit_internal', 'truth', r'is_some\(self\.state\.pending_reinit\)', None, 'GroupUsedAfterReInit',
                               dominates_rx=r'GroupState::apply_resolved$'), floor=1)
    ctx.check('GUARD', 'no commit after re-init (receiver)',
              lambda P_: guard(P_, 'MessageProcessor::process_commit', 'truth', r'is_some\(.*pending_reinit\)', None, 'GroupUsedAfterReInit',
                               dominates_rx=r'GroupState::apply_resolved$'), floor=1)
    ctx.check('GUARD', 'detached commit: same group',
              lambda P_: guard(P_, 'Group::apply_detached_commit', '!=', r'mls_decode\(.*\)\.state\.context\.group_id', r'self\.state\.context\.group_id', 'InvalidEpoch'), floor=1)
    ctx.check('GUARD', 'detached commit: successor of the current epoch',
              lambda P_: guard(P_, 'Group::apply_detached_commit', '!=', r'mls_decode\(.*\)\.state\.context\.epoch', r'checked_add\(self\.state\.context\.epoch, const 1\)', 'InvalidEpoch'), floor=1)
    ctx.check('GUARD', 'detached commit: nothing installed before the epoch check',
              lambda P_: writes_after_guard(P_, 'Group::apply_detached_commit', '!=', r'mls_decode\(.*\)\.state\.context\.epoch', r'checked_add'), floor=4)
    ctx.check('INSTALL', 'apply_detached_commit installs the whole pending state',
              lambda P_: install(P_, 'Group::apply_detached_commit', {
                  'state': r'mls_decode\(.*\)\.state$', 'epoch_secrets': r'\.epoch_secrets$', 'private_tree': r'\.private_tree$',
                  'key_schedule': r'\.key_schedule$', 'signer': r'\.signer$'}), floor=5)
    ctx.check('MUST-PASS', 'detached commit: prior epoch archived before the switch',
              lambda P_: must_pass(P_, 'Group::apply_detached_commit', r'Group::insert_past_epoch$'), floor=1)
    ctx.check('INSTALL', 'a processed commit discards the pending commit',
              lambda P_: install(P_, 'Group as MessageProcessor::update_key_schedule', {'pending_commit': r'Default::default'}), floor=1)
    for fq in ('Group::process_incoming_message', 'Group::process_incoming_message_with_time'):
        ctx.check('GUARD', 'own commit echo matched by message hash: ' + fq,
                  lambda P_, fq=fq: _echo(P_, fq), floor=1)
    ctx.check('WIRE', 'apply_pending_commit applies the stored pending commit',
              lambda P_: wire(P_, 'Group::apply_pending_commit', r'Group::apply_detached_commit$', 1, r'self\.pending_commit'), floor=1)


def _echo(P, fq):
    """apply_pending_commit is reachable only on the side where hash(message) == pending hash"""
    fn = P.fn(fq)
    body = P.body(fn)
    gx = GuardExtractor(body)
    r = Res()
    apply_blocks = [bi for bi, t in body.calls_named(r'Group::apply_pending_commit$')]
    if not apply_blocks:
        return r.bad('call-missing', '`%s` no longer applies the pending commit when its own commit is echoed back' % fq)
    found = False
    for bi, blk in enumerate(body.B):
        t = blk['term']
        if t['k'] != 'switch' or t['d']['k'] not in ('copy', 'move') or t['d']['pl']['p']:
            continue
        l = t['d']['pl']['l']
        if body.fn['locals'][l]['ty'] != 'bool' or len(t['ts']) != 1:
            continue
        rel = gx.cond_of_local(l)
        if rel[0] not in ('==', '!=') or not (re.search(r'MessageHash::compute', rel[1] + rel[2]) and re.search(r'commit_hash', rel[1] + rel[2])):
            continue
        v, tgt = t['ts'][0]
        false_t, true_t = (tgt, t['o']) if v == '0' else (t['o'], tgt)
        eq_t, ne_t = (true_t, false_t) if rel[0] == '==' else (false_t, true_t)
        found = True
        r.site('%s @%s' % (fq, blk['ln']))
        reach_ne = body.reach([ne_t], set())
        for ab in apply_blocks:
            if ab in reach_ne and not body.dominates(eq_t, ab):
                r.bad('echo-polarity', 'in `%s` the pending commit is applied although the received message hash differs from '
                      'the pending commit hash' % fq, where=[blk['ln'], body.ln(ab)])
            if not body.dominates(eq_t, ab):
                r.bad('echo-unguarded', 'in `%s` apply_pending_commit is not confined to the hash-equal branch' % fq, where=[body.ln(ab)])
    if not found:
        r.bad('guard-missing', '`%s` no longer compares the received message hash with the pending commit hash' % fq, where=[fn['loc']])
    return r
