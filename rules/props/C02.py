"""C02 -- only current members can follow the group; secrets go only to entitled keys."""
import re

from ..core.engine import Res
from ..core.rules import exhaustive_loop
from ..core.rules import who_calls, wire, order, must_pass, branch_must_pass, guard, call_matches, predicate_implied_by
from ..core.origins import Origins
from ..core.facts import callee_name

CONFIGS = {'quick': ['A'], 'thorough': ['A', 'B', 'C', 'D']}
LEVEL = 'other'
TECHNIQUE = ('who-may-call queries on HPKE encryption, def-use wiring of recipient keys and exclusion lists (through iterator-adaptor '
             'closures), branch-conditioned must-pass for blanking, dominance of the self-removal guard, path-cut check on the bool predicate '
             'that decides whether a commit needs an update path (Remove => required on every path)')
EXPLANATION = ('WHO-CALLS: HPKE seal is reachable only through HpkeEncryptable::encrypt (path secrets in '
               'TreeKem::encrypt_copath_node_resolution, group secrets in Group::encrypt_group_secrets) and the two explicit '
               'application-level hpke_encrypt APIs. WIRE: a path secret is encrypted to the public key of a node drawn from the '
               'resolution of the copath node after filtering out the excluded (newly added) leaves; the exclusion list of encap and '
               'of decap is the provisional state\'s indexes_of_added_kpkgs and encap runs on the provisional (already edited) tree; '
               'joiner secrets are encrypted to the init key of the key package being added. BLANK: a removed leaf is blanked together '
               'with its direct path before any encapsulation. GUARD: a member removed by the commit never runs apply_update_path / '
               'update_key_schedule. That a party holding none of the target keys cannot compute the secrets is a cryptographic '
               'argument and is not decided.')
EXPLANATION += ' IMPLIES: the predicate that decides whether a commit needs an update path answers true whenever a Remove is covered, on every path.'
ASSUMPTIONS = ['HPKE is IND-CCA secure; resolution / copath arithmetic is value-level (C20, not claimed)']


def receiver_exclusion(P):
    """Sender side: the resolution is filtered by membership in a set of NODE indices of the added leaves, so parent entries
    are never skipped. Receiver side (find_ciphertext_pos): an entry may be converted to a leaf index and looked up in the
    added-leaf list only when it IS a leaf (even node index); parent entries must always be counted. Otherwise the two sides
    disagree on the position of a ciphertext whenever a parent with index 2k+1 sits next to an added leaf k."""
    from ..core.guards import GuardExtractor
    from ..core.facts import callee_resolved, callee_path, module_private
    fn = P.fn('TreeKem::find_ciphertext_pos')
    r = Res()
    found = False
    # the filter predicate: a closure of find_ciphertext_pos, or a module-private helper the closure / the function hands the test to
    cands = [(P.fns[k], False) for k in P.closures_of(fn['key'])]
    for g in [fn] + [c for c, _ in cands]:
        for bi, t in P.body(g).calls():
            h = P.fns.get(callee_resolved(t)) or P.fns.get(callee_path(t))
            if h is not None and h is not fn and module_private(h) and h['ret'] == 'bool' and h['loc'].startswith('mls-rs/src/tree_kem/kem.rs'):
                cands.append((h, True))
    for f, is_helper in cands:
        body = P.body(f)
        o = Origins(body)
        gx = GuardExtractor(body)
        for bi, t in body.calls():
            if not re.search(r'::contains$', callee_name(t)):
                continue
            a0 = t['args'][0]
            if is_helper:
                pnames = set(body.names.get(i) for i in range(1, body.argc + 1))
                if o.arg_str(t, 0) not in pnames:
                    continue
            elif o.arg_str(t, 0) != 'excluding':
                continue
            found = True
            r.site('%s @%s contains(excluding, %s)' % (f['qual'], body.ln(bi), o.arg_str(t, 1)[:60]))
            ok = False
            for sb, blk in enumerate(body.B):
                tt = blk['term']
                if tt['k'] != 'switch' or tt['d']['k'] not in ('copy', 'move') or tt['d']['pl']['p']:
                    continue
                if body.fn['locals'][tt['d']['pl']['l']]['ty'] != 'bool' or len(tt['ts']) != 1:
                    continue
                rel = gx.cond_of_local(tt['d']['pl']['l'])
                if rel[0] not in ('==', '!=') or not re.search(r'^\(\w+ Rem const 2\)$', rel[1]) or rel[2] not in ('const 1', 'const 0'):
                    continue
                v, tgt = tt['ts'][0]
                false_t, true_t = (tgt, tt['o']) if v == '0' else (tt['o'], tgt)
                odd_when_true = (rel[0] == '==') == (rel[2] == 'const 1')
                even_side = false_t if odd_when_true else true_t
                if body.dominates(even_side, bi) or even_side == bi:
                    ok = True
            if not ok:
                r.bad('parent-entries-skipped', 'in `%s` a resolution entry is looked up in the added-leaf list without first being known to be a leaf '
                      '(even node index): a parent node 2k+1 is treated as added leaf k and skipped, so sender and receiver count ciphertexts differently'
                      % f['qual'], where=[body.ln(bi)])
    if not found:
        r.bad('exclusion-missing', 'find_ciphertext_pos no longer filters the resolution by the added-leaf list')
    return r


def run(ctx):
    P = ctx.P
    ctx.check('EXHAUSTIVE-LOOP', 'every node of the direct path of a removed / updated leaf is blanked', lambda P_: exhaustive_loop(P_, 'NodeVec::blank_direct_path'), floor=1)
    cfg = ctx.config
    ctx.check('WHO-CALLS', 'hpke_seal callers',
              lambda P_: who_calls(P_, r'CipherSuiteProvider::hpke_seal(_psk)?$',
                                   [r'^HpkeEncryptable::encrypt$', r'^Group::hpke_encrypt(_psk)?_to_recipient_with_generic_context$',
                                    r'^Group::hpke_encrypt(_psk)?_to_recipient$'], crates=('mls_rs',)), floor=1)
    ctx.check('WHO-CALLS', 'HpkeEncryptable::encrypt callers',
              lambda P_: who_calls(P_, r'HpkeEncryptable::encrypt$', [r'^TreeKem::encrypt_copath_node_resolution$', r'^Group::encrypt_group_secrets$']), floor=2)
    ctx.check('WHO-CALLS', 'path secrets are encapsulated only while committing',
              lambda P_: who_calls(P_, r'TreeKem::encap$', [r'^Group::commit_internal$']), floor=1)
    E = 'TreeKem::encrypt_copath_node_resolution'

    def recipients(P_):
        fn = P_.fn(E)
        body = P_.body(fn)
        o = Origins(body)
        r = Res()
        # 1. ciphertexts are collected from: resolution(copath_index) |> filter(not excluded) |> map(encrypt)
        coll = body.calls_named(r'try_collect$|Iterator::collect$|try_collect')
        chain_ok = False
        for bi, t in coll:
            s = o.arg_str(t, 0)
            r.site('%s @%s %s' % (E, body.ln(bi), s[:140]))
            if re.search(r'::map\((\w+::)?\w*::filter\(.*NodeVec::get_resolution_index\(self\.tree_kem_public\.nodes, copath_index\)', s) or \
               re.search(r'map\(.*filter\(.*get_resolution_index\(self\.tree_kem_public\.nodes, copath_index\)', s):
                chain_ok = True
        if not chain_ok:
            r.bad('chain', 'the ciphertext list is no longer built as map(encrypt) over filter(not excluded) over the resolution of the copath node')
        # 2. closures: the filter closure tests membership in `excluding` (negated), the map closure encrypts to the node key at idx
        filt = enc = False
        for k in P_.closures_of(fn['key']):
            f = P_.fns[k]
            b2 = P_.body(f)
            o2 = Origins(b2)
            for bi, t in b2.calls():
                cn = callee_name(t)
                if re.search(r'::contains$', cn) and o2.arg_str(t, 0) == 'excluding':
                    # the closure must return the negation
                    from ..core.guards import GuardExtractor
                    gx = GuardExtractor(b2)
                    ret = b2.defs.get(0, [])
                    txt = ' '.join(o2.def_str(d, 0) for d in ret)
                    r.site('%s returns %s' % (f['qual'], txt[:80]))
                    if re.search(r'^Not\(\w*::contains\(excluding', txt):
                        filt = True
                if cn == 'HpkeEncryptable::encrypt':
                    s = o2.arg_str(t, 2)
                    r.site('%s encrypts to %s' % (f['qual'], s[:100]))
                    if re.search(r'^Node::public_key\(.*NodeVec::borrow_node\(\w+, idx\)\)*$', s) and o2.arg_str(t, 0) == 'path_secret':
                        enc = True
        if not filt:
            r.bad('exclusion-filter', 'the resolution is no longer filtered by `!excluding.contains(idx)`: newly added leaves would receive the path secret')
        if not enc:
            r.bad('recipient-key', 'the path secret is no longer encrypted to the public key of the resolution node `idx`')
        return r
    ctx.check('WIRE', 'path-secret recipients = resolution minus excluded leaves', recipients, floor=3, configs=['A', 'C'])
    CI = 'Group::commit_internal'
    ctx.check('WIRE', 'encap excludes the leaves added by this commit',
              lambda P_: wire(P_, CI, r'TreeKem::encap$', 2, r'^GroupState::apply_resolved\(.*\)\.indexes_of_added_kpkgs$'), floor=1)
    ctx.check('WIRE', 'encap operates on the provisional (edited) tree',
              lambda P_: wire(P_, CI, r'TreeKem::new$', 0, r'^GroupState::apply_resolved\(.*\)\.public_tree$'), floor=1)
    ctx.check('ORDER', 'proposals (removals) are applied before encapsulation',
              lambda P_: order(P_, CI, r'GroupState::apply_resolved$', r'TreeKem::encap$'), floor=1)
    ctx.check('WIRE', 'decap uses the same exclusion list',
              lambda P_: wire(P_, 'Group as MessageProcessor::apply_update_path', r'TreeKem::decap$', 3, r'^provisional_state\.indexes_of_added_kpkgs$'), floor=1)
    ctx.check('WIRE', 'decap operates on the provisional tree',
              lambda P_: wire(P_, 'Group as MessageProcessor::apply_update_path', r'TreeKem::new$', 0, r'^provisional_state\.public_tree$'), floor=1)
    ctx.check('WIRE', 'receiver indexes the ciphertext list with the same exclusion rule',
              lambda P_: wire(P_, 'TreeKem::decap', r'TreeKem::find_ciphertext_pos$', 3, r'^added_leaves$'), floor=1)
    ctx.check('SIBLING', 'receiver skips only LEAF entries of the resolution that were added by the commit (as the sender does)',
              receiver_exclusion, floor=1)
    # a commit that removes a member must carry an update path (fresh commit secret the removed member cannot derive):
    # the predicate both the committer and every receiver consult answers `true` whenever a non-local Remove is present,
    # whatever else the commit carries
    ctx.check('IMPLIES', 'a commit covering a Remove requires an update path',
              lambda P_: predicate_implied_by(P_, 'proposal_filter::path_update_required', r'has_non_local_proposal$', r'remove_proposals\(proposals\)'), floor=1)
    ctx.check('IMPLIES', 'a commit covering a SelfRemove requires an update path',
              lambda P_: predicate_implied_by(P_, 'proposal_filter::path_update_required', r'has_non_local_proposal$', r'proposals\.self_removes'), floor=1, configs=['C'])
    ctx.check('GUARD', 'receiver rejects a path-less commit when a path is required',
              lambda P_: guard(P_, 'MessageProcessor::process_commit', 'truth', r'is_none\(.*path\)', None, 'CommitMissingPath'), floor=1)
    for fq in ('Group::commit_internal', 'MessageProcessor::process_commit'):
        ctx.check('WIRE', fq + ': path requirement is decided on the proposals actually applied',
                  lambda P_, fq=fq: wire(P_, fq, r'path_update_required$', 0, r'apply_resolved\(.*\)\.applied_proposals$|provisional_state\.applied_proposals$'), floor=1)
    G = 'Group::encrypt_group_secrets'
    ctx.check('WIRE', 'joiner secrets are encrypted to the init key of the added key package',
              lambda P_: wire(P_, G, r'HpkeEncryptable::encrypt$', 2, r'^key_package\.hpke_init_key$'), floor=1)

    def new_member_ref(P_):
        fn = P_.fn(G)
        body = P_.body(fn)
        o = Origins(body)
        r = Res()
        for b in body.B:
            for st in b['st']:
                rv = st['rv']
                if rv['k'] == 'agg' and rv['what'].endswith('EncryptedGroupSecrets::EncryptedGroupSecrets'):
                    got = {n: o.op_str(op) for n, op in zip(rv['names'], rv['ops'])}
                    r.site('%s new_member <- %s' % (G, got.get('new_member', '')[:80]))
                    if not re.search(r'KeyPackage::to_reference\(key_package', got.get('new_member', '')):
                        r.bad('new-member', 'the encrypted group secrets are addressed to `%s`, not to the reference of the key package whose init key was used' % got.get('new_member'))
        return r
    ctx.check('WIRE', 'encrypted group secrets are addressed to the same key package', new_member_ref, floor=1)
    R = 'TreeKemPublic::apply_remove'
    if cfg != 'B':
        ctx.check('BLANK', 'removed leaf: direct path blanked with the leaf',
                  lambda P_: branch_must_pass(P_, R, r'Result::is_ok\(NodeVec::blank_leaf_node\(', True, r'NodeVec::blank_direct_path$'), floor=1)
        ctx.check('WHO-CALLS', 'leaf blanking sites', lambda P_: who_calls(P_, r'NodeVec::blank_leaf_node$', [r'^TreeKemPublic::(apply_remove|batch_edit)$']), floor=2)
        def updated_paths_blanked(P_):
            fn = P_.fn('TreeKemPublic::batch_edit')
            r = Res()
            for k in [fn['key']] + P_.closures_of(fn['key']):
                b2 = P_.body(P_.fns[k])
                for bi, t in b2.calls_named(r'NodeVec::blank_direct_path$'):
                    r.site('%s @%s' % (P_.fns[k]['qual'], b2.ln(bi)))
            if not r.sites:
                r.bad('call-missing', 'batch_edit no longer blanks the direct path of the leaves it updated: the keys above an updated leaf '
                      'stay in the resolutions the next path secret is encrypted to')
            return r
        ctx.check('BLANK', 'updated leaves: direct paths blanked', updated_paths_blanked, floor=1)
    P0 = 'MessageProcessor::process_commit'

    def removed_stays_behind(P_):
        """apply_update_path and update_key_schedule are reachable only on the !is_self_removed side"""
        fn = P_.fn(P0)
        body = P_.body(fn)
        from ..core.guards import GuardExtractor
        gx = GuardExtractor(body)
        r = Res()
        targets = [bi for bi, t in body.calls_named(r'MessageProcessor::(apply_update_path|update_key_schedule)$')]
        if len(targets) < 2:
            return r.bad('call-missing', 'process_commit no longer calls apply_update_path / update_key_schedule')
        for tb in targets:
            ok = False
            for bi, b in enumerate(body.B):
                t = b['term']
                if t['k'] != 'switch' or t['d']['k'] not in ('copy', 'move') or t['d']['pl']['p']:
                    continue
                l = t['d']['pl']['l']
                if body.fn['locals'][l]['ty'] != 'bool' or len(t['ts']) != 1:
                    continue
                rel = gx.cond_of_local(l)
                txt = rel[1]
                if not re.search(r'is_self_removed|Option::is_some\(MessageProcessor::removal_proposal|removal_proposal', txt):
                    continue
                v, tgt = t['ts'][0]
                false_t, true_t = (tgt, t['o']) if v == '0' else (t['o'], tgt)
                removed_side = true_t if rel[0] == 'truth' else false_t
                other = false_t if rel[0] == 'truth' else true_t
                if body.dominates(other, tb) and tb not in body.reach([removed_side], {other}):
                    ok = True
            r.site('%s @%s guarded=%s' % (P0, body.ln(tb), ok))
            if not ok:
                r.bad('removed-member-advances@%s' % callee_name(body.term(tb)), 'in process_commit %s is not confined to the branch where this member is not removed by the commit'
                      % callee_name(body.term(tb)), where=[body.ln(tb)])
        return r
    ctx.check('GUARD', 'a member removed by the commit does not advance its key schedule', removed_stays_behind, floor=2)
