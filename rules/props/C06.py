"""C06 -- a group restored from storage is the same group, at every crash point."""
import re

from ..core.engine import Res
from ..core.rules import struct_map, who_writes, must_pass, order, wire, who_calls, call_matches, pair
from ..core.origins import Origins
from ..core.facts import callee_name, AnchorMissing
from ..core import codec

CONFIGS = {'quick': ['A', 'P'], 'thorough': ['A', 'B', 'C', 'D', 'P']}
LEVEL = 'other'
TECHNIQUE = ('field-by-field completeness of the save / restore mappings over struct aggregates (def-use origins), who-may-write on the '
             'one unpersisted field, call-ordering and receiver-origin queries on the storage providers, codec sibling cross-check')
EXPLANATION = ('SNAPSHOT-COMPLETENESS: every field of Group is copied into Snapshot by Group::snapshot and moved back by '
               'Group::from_snapshot (or rebuilt from the configuration); every field of GroupState goes through RawGroupState '
               'export / import; a newly added state field that is not persisted fails the rule. The one exception, previous_psk, is '
               'written only by the resumption builder and reset before it returns. ONE-WRITE: write_to_storage hands the snapshot, '
               'all pending inserts and all pending updates to a single GroupStateStorage::write. ATOMIC-STORES: the in-memory store '
               'mutates under one lock and trims on every write; every SQL statement of the SQLite store runs on the transaction and '
               'commit() is on every success path (a `?` in between drops the transaction = rollback). CODEC of the stored types is '
               'checked under C12. Lock-step behaviour after reload and equality of the two providers are not decided.')
EXPLANATION += ' TIERED-LOOKUP: the cache of loaded prior epochs is searched linearly by equality (one copy per epoch is flushed). CODEC: size / encode / decode agreement of every type reachable from Snapshot and PriorEpoch.'
ASSUMPTIONS = ['SQL statement texts are opaque constants; rusqlite::Transaction rolls back on drop']


def sql_statements(P, crate='mls_rs_provider_sqlite'):
    out = []
    for f in P.fns.values():
        if f['crate'] != crate:
            continue
        for b in f['blocks']:
            for st in b['st']:
                rv = st['rv']
                if rv['k'] == 'use' and rv['o']['k'] == 'const':
                    c = rv['o']['v'].get('c', '')
                    if re.search(r'\b(SELECT|INSERT|UPDATE|DELETE)\b.*\b(FROM|INTO|SET)\b', c):
                        out.append((f, st['ln'], c.strip('"')))
    return out


def sql_scope(P):
    """The `epoch` and `mls_group` tables hold the records of ALL groups of a database. Every statement that reads, updates or
    deletes rows of them must name the group (`group_id = ?`), and every INSERT must fill the group_id column; the only
    exception is the listing of all group ids. (Statement texts are otherwise opaque to the analysis.)"""
    r = Res()
    for f, ln, sql in sql_statements(P):
        m = re.search(r'\b(?:FROM|INTO|UPDATE)\s+(epoch|mls_group)\b', sql, re.I)
        if not m:
            continue
        r.site('%s @%s %s' % (f['qual'], ln, sql[:90]))
        up = sql.upper()
        if up.startswith('INSERT'):
            if not re.search(r'\(\s*group_id\s*,', sql, re.I):
                r.bad('insert-without-group:%s' % f['qual'], 'INSERT into %s in `%s` does not fill group_id: %s' % (m.group(1), f['qual'], sql[:120]), where=[ln])
            continue
        if re.match(r'SELECT\s+group_id\s+FROM\s+mls_group\s*$', sql, re.I):
            continue        # listing of all groups
        if not re.search(r'group_id\s*=\s*\?', sql, re.I):
            r.bad('unscoped-statement:%s' % f['qual'], 'SQL statement in `%s` touches table %s without `group_id = ?`: it acts on the rows of every '
                  'group in the database: %s' % (f['qual'], m.group(1), sql[:140]), where=[ln])
        if re.search(r'\b(UPDATE|DELETE)\b', up) and m.group(1) == 'epoch' and not re.search(r'epoch_id\s*(=|<=|<)\s*\?', sql, re.I):
            r.bad('unbounded-epoch-statement:%s' % f['qual'], 'UPDATE / DELETE on table epoch in `%s` is not restricted by epoch_id: %s' % (f['qual'], sql[:140]), where=[ln])
    return r


STORED_ROOTS = ('mls_rs::group::snapshot::Snapshot', 'mls_rs::group::epoch::PriorEpoch')


def stored_types(P):
    """short names of every ADT reachable through field types from the two records a storage write consists of"""
    by_last = {}
    for k in P.adts:
        by_last.setdefault(k.split('::')[-1], []).append(k)
    seen, todo = set(), [r for r in STORED_ROOTS if r in P.adts]
    while todo:
        k = todo.pop()
        if k in seen:
            continue
        seen.add(k)
        for v in P.adts[k]['variants']:
            for f in v['fields']:
                for tok in re.findall(r'[A-Za-z_][\w:]*', f['ty']):
                    last = tok.split('::')[-1]
                    for cand in by_last.get(last, []):
                        tail = tok.split('::')
                        if cand.split('::')[-len(tail):] == tail or len(tail) == 1:
                            todo.append(cand)
    return seen


def stored_codec(P):
    """size / encode / decode of every stored type agree (same rule as C12, restricted to the closure of Snapshot and PriorEpoch):
    with fast_serialize the length prefix of an enclosing collection comes from MlsSize, so a disagreement makes the written
    snapshot or epoch record undecodable on load"""
    from .C12 import rule_codec
    st = stored_types(P)
    if len(st) < 2:
        raise AnchorMissing('Snapshot / PriorEpoch not found')
    names = set(k.split('::')[-1] for k in st)
    r = rule_codec(P, only=lambda crate, ty: re.sub(r'<.*', '', ty).split('::')[-1] in names)
    r.detail = dict(r.detail or {}, stored_adts=len(st))
    return r


def run(ctx):
    P = ctx.P
    cfg = ctx.config
    if cfg in ('A', 'C', 'D'):
        from .repo_lookup import unordered_updates_cache
        ctx.check('TIERED-LOOKUP', 'one cached copy per prior epoch: the cache is searched linearly by equality (a missed entry is loaded twice and both copies are flushed)',
                  unordered_updates_cache, floor=1)
    if cfg != 'P':
        ctx.check('CODEC', 'stored records decode to what was encoded (size / encode / decode agreement of Snapshot, PriorEpoch and everything inside)',
                  stored_codec, floor={'A': 70, 'B': 45, 'C': 70, 'D': 70}.get(cfg, 45))
    if cfg == 'P':
        S = 'SqLiteGroupStateStorage::update_group_state'

        def on_txn(P_):
            fn = P_.fn(S)
            r = Res()
            for k in [fn['key']] + P_.closures_of(fn['key']):
                f = P_.fns[k]
                body = P_.body(f)
                o = Origins(body)
                for bi, t in body.calls_named(r'Connection::(execute|execute_batch|prepare|prepare_cached|query_row)$|(Cached)?Statement::execute$'):
                    s = o.arg_str(t, 0)
                    r.site('%s @%s on %s' % (f['qual'], body.ln(bi), s[:70]))
                    if not re.search(r'Connection::transaction\(|^arg1\.\d+$|transaction', s):
                        r.bad('stmt-outside-transaction@%s' % f['qual'], 'a SQL statement in `%s` is executed on `%s`, not on the transaction: '
                              'it is not rolled back with the rest of the write' % (f['qual'], s[:120]), where=[body.ln(bi)])
            return r
        ctx.check('ATOMIC-STORE', 'sqlite: every statement runs on the transaction', on_txn, floor=4)
        ctx.check('MUST-PASS', 'sqlite: transaction committed on every success path', lambda P_: must_pass(P_, S, r'Transaction::commit$'), floor=1)
        ctx.check('MUST-PASS', 'sqlite: one transaction per write', lambda P_: must_pass(P_, S, r'Connection::transaction$', before_rx=r'Connection::execute$'), floor=1)
        ctx.check('WIRE', 'sqlite: the snapshot upsert writes the given snapshot',
                  lambda P_: wire(P_, S, r'Connection::execute$', 1, r'INSERT INTO mls_group|INSERT INTO epoch|UPDATE epoch SET|DELETE FROM epoch', which='all'), floor=3)
        ctx.check('SQL-SCOPE', 'sqlite: every statement on the per-group tables is scoped by group_id', sql_scope, floor=6)
        ctx.check('MUST-PASS', 'sqlite: GroupStateStorage::write goes through update_group_state',
                  lambda P_: must_pass(P_, 'SqLiteGroupStateStorage as GroupStateStorage::write', r'SqLiteGroupStateStorage::update_group_state$'), floor=1)
        return
    # ---- snapshot completeness
    ctx.check('SNAPSHOT-COMPLETENESS', 'Group -> Snapshot',
              lambda P_: struct_map(P_, 'Group::snapshot', 'Snapshot', {
                  'version': r'^const 1$', 'state': r'^RawGroupState::export\(self\.state\)$', 'private_tree': r'^self\.private_tree$',
                  'epoch_secrets': r'^self\.epoch_secrets$', 'key_schedule': r'^self\.key_schedule$', 'pending_updates': r'^self\.pending_updates$',
                  'pending_commit_snapshot': r'^self\.pending_commit$', 'signer': r'^self\.signer$'}, 'self'), floor=6)
    ctx.check('SNAPSHOT-COMPLETENESS', 'Snapshot -> Group',
              lambda P_: struct_map(P_, 'Group::from_snapshot', 'mls_rs::group::Group', {
                  'config': r'^config$', 'cipher_suite_provider': r'cipher_suite_provider\(', 'state_repo': r'^GroupStateRepository::new\(snapshot\.state\.context\.group_id' if cfg != 'B' else r'^GroupStateRepository::new\(',
                  'state': r'^RawGroupState::import\(snapshot\.state', 'epoch_secrets': r'^snapshot\.epoch_secrets$', 'private_tree': r'^snapshot\.private_tree$',
                  'key_schedule': r'^snapshot\.key_schedule$', 'pending_updates': r'^snapshot\.pending_updates$',
                  'pending_commit': r'^snapshot\.pending_commit_snapshot$', 'previous_psk': r'^Option::None', 'signer': r'^snapshot\.signer$'},
                  'snapshot'), floor=9)

    def group_fields_saved(P_):
        """every field of Group is either saved in Snapshot (by snapshot()) or in the not-persisted table"""
        r = Res()
        gf = P_.fields('mls_rs::group::Group')
        not_persisted = {'config': 'rebuilt from the client configuration', 'cipher_suite_provider': 'rebuilt from the configuration',
                         'state_repo': 'handles to the storage providers; pending epoch records are flushed by write_to_storage',
                         'previous_psk': 'transient: set and reset inside ResumptionGroupBuilder::create (WHO-WRITES rule)'}
        fn = P_.fn('Group::snapshot')
        body = P_.body(fn)
        o = Origins(body)
        saved = set()
        for b in body.B:
            for st in b['st']:
                rv = st['rv']
                if rv['k'] == 'agg' and rv['what'].endswith('snapshot::Snapshot::Snapshot'):
                    for op in rv['ops']:
                        m = re.search(r'self\.(\w+)', o.op_str(op))
                        if m:
                            saved.add(m.group(1))
        for f in gf:
            r.site('Group.%s: %s' % (f, 'saved' if f in saved else not_persisted.get(f, 'NOT SAVED')))
            if f not in saved and f not in not_persisted:
                r.bad('unsaved-field:' + f, 'Group.%s is member state that Group::snapshot does not save: it is lost on reload' % f, where=[fn['loc']])
        return r
    ctx.check('SNAPSHOT-COMPLETENESS', 'every Group field is saved or reasoned', group_fields_saved, floor=10 if cfg != 'B' else 8)
    ctx.check('SNAPSHOT-COMPLETENESS', 'GroupState -> RawGroupState',
              lambda P_: struct_map(P_, 'RawGroupState::export', 'RawGroupState', {
                  'context': r'^state\.context$', 'proposals': r'^state\.proposals\.proposals$', 'own_proposals': r'^state\.proposals\.own_proposals$',
                  'public_tree': r'^state\.public_tree$' if cfg != 'D' else r'^tree$|public_tree', 'interim_transcript_hash': r'^state\.interim_transcript_hash$',
                  'pending_reinit': r'^state\.pending_reinit$', 'confirmation_tag': r'^state\.confirmation_tag$'}, 'state'),
              floor=5, configs=['A', 'C', 'D'])
    ctx.check('WIRE', 'without a tree index, export copies the nodes of the group tree',
              lambda P_: _export_nodes(P_), floor=1, configs=['D'])
    ctx.check('SNAPSHOT-COMPLETENESS', 'RawGroupState -> GroupState',
              lambda P_: struct_map(P_, 'RawGroupState::import', 'mls_rs::group::state::GroupState', {
                  'proposals': r'^ProposalCache::import\(.*self\.proposals.*self\.own_proposals|^ProposalCache::import\(', 'context': r'^self\.context$',
                  'public_tree': r'^self\.public_tree$', 'interim_transcript_hash': r'^self\.interim_transcript_hash$',
                  'pending_reinit': r'^self\.pending_reinit$', 'confirmation_tag': r'^self\.confirmation_tag$'}, 'self'),
              floor=5, configs=['A', 'C', 'D'])
    ctx.check('WIRE', 'cached proposals restored from both stored maps',
              lambda P_: wire(P_, 'RawGroupState::import', r'ProposalCache::import$', 2, r'^self\.proposals$'), floor=1, configs=['A', 'C', 'D'])
    ctx.check('WIRE', 'own proposals restored',
              lambda P_: wire(P_, 'RawGroupState::import', r'ProposalCache::import$', 3, r'^self\.own_proposals$'), floor=1, configs=['A', 'C', 'D'])
    ctx.check('WHO-WRITES', 'the unpersisted previous_psk is written only by the resumption builder',
              lambda P_: who_writes(P_, 'mls_rs::group::Group', 'previous_psk',
                                    [r'^ResumptionGroupBuilder::create$', r'^Group::(from_snapshot|join_with|new_created)$', r'^GroupBuilder::build$', r'^Group as Clone::clone$'],
                                    kinds=('assign', 'borrow-mut', 'assign-call-result', 'construct')), floor=2, configs=['A', 'C', 'D'])

    def psk_reset(P_):
        """in ResumptionGroupBuilder::create, previous_psk = Some(..) is followed by previous_psk = None before Ok"""
        from ..core.rules import assigns
        fn = P_.fn('ResumptionGroupBuilder::create')
        body = P_.body(fn)
        r = Res()
        a = assigns(P_, 'ResumptionGroupBuilder::create', r'\.previous_psk$')
        sets = [x for x in a if 'Some' in x[3]]
        resets = [x for x in a if 'None' in x[3]]
        for x in a:
            r.site('%s @%s = %s' % (fn['qual'], x[1], x[3][:40]))
        if not sets or not resets:
            return r.bad('set-reset', 'ResumptionGroupBuilder::create no longer sets and resets the injected PSK')
        reach = body.reach([sets[0][0]], set(x[0] for x in resets) | set(body.err_blocks))
        if any(body.term(b)['k'] == 'return' for b in reach):
            r.bad('not-reset', 'a successor group can be returned with the injected resumption PSK still installed (it is not part of the snapshot)', where=[sets[0][1]])
        return r
    ctx.check('PAIR', 'previous_psk set/reset before the group is returned', psk_reset, floor=2, configs=['A', 'C', 'D'])
    # ---- one write
    W = 'GroupStateRepository::write_to_storage'
    ctx.check('MUST-PASS', 'one storage write per save', lambda P_: must_pass(P_, W, r'GroupStateStorage::write$'), floor=1)

    def one_write(P_):
        fn = P_.fn(W)
        body = P_.body(fn)
        o = Origins(body)
        r = Res()
        ws = body.calls_named(r'GroupStateStorage::write$')
        for bi, t in ws:
            args = [o.op_str(a) for a in t['args']]
            r.site('%s @%s' % (W, body.ln(bi)))
            if not (re.search(r'data: MlsEncode::mls_encode_to_vec\(group_snapshot\)', args[1]) and
                    re.search(r'id: group_snapshot\.state\.context\.group_id', args[1])):
                r.bad('snapshot-arg', 'the stored group state is built from `%s`, expected the encoded snapshot and its group id' % args[1][:200], where=[body.ln(bi)])
            if cfg != 'B' and not re.search(r'self\.pending_commit\.inserts', args[2]):
                r.bad('inserts-arg', 'the epoch inserts handed to storage are `%s`, expected all pending inserts' % args[2][:200], where=[body.ln(bi)])
            if cfg != 'B' and not re.search(r'self\.pending_commit\.updates', args[3]):
                r.bad('updates-arg', 'the epoch updates handed to storage are `%s`, expected all pending updates' % args[3][:200], where=[body.ln(bi)])
        if len(ws) != 1:
            r.bad('write-count', 'write_to_storage performs %d storage writes, expected exactly one (snapshot + epochs in one step)' % len(ws))
        return r
    ctx.check('WIRE', 'snapshot, all inserts and all updates go into one write', one_write, floor=1)
    ctx.check('WIRE', 'Group::write_to_storage saves the current snapshot',
              lambda P_: wire(P_, 'Group::write_to_storage', r'GroupStateRepository::write_to_storage$', 1, r'^Group::snapshot\(self\)$'), floor=1)
    # ---- in-memory store
    M = 'InMemoryGroupStateStorage as GroupStateStorage::write'
    ctx.check('ATOMIC-STORE', 'in-memory: one lock dominates every mutation',
              lambda P_: must_pass(P_, M, r'InMemoryGroupStateStorage::lock$', before_rx=r'insert_epoch|update_epoch|trim_epochs|Iterator::for_each$', require_checked=False), floor=1)
    ctx.check('MUST-PASS', 'in-memory: trimmed on every write', lambda P_: must_pass(P_, M, r'InMemoryGroupData::trim_epochs$', require_checked=False), floor=1)

    def no_err_between(P_):
        fn = P_.fn(M)
        body = P_.body(fn)
        r = Res()
        r.site(M)
        if body.err_blocks:
            r.bad('fallible-in-memory-write', 'the in-memory write has an error exit (%s): a failure between two mutations would leave a half-written store'
                  % [body.ln(b) for b in body.err_blocks], where=[body.ln(b) for b in body.err_blocks])
        return r
    ctx.check('ATOMIC-STORE', 'in-memory: no error exit between mutations', no_err_between, floor=1)


def _export_nodes(P):
    from ..core.rules import assigns
    r = Res()
    a = assigns(P, 'RawGroupState::export', r'\.nodes$')
    for bi, ln, ps, src in a:
        r.site('%s = %s' % (ps, src))
        if not re.search(r'^state\.public_tree\.nodes$', src):
            r.bad('nodes', 'the exported tree nodes are `%s`, expected state.public_tree.nodes' % src, where=[ln])
    if not a:
        r.bad('nodes-missing', 'RawGroupState::export no longer copies the tree nodes')
    return r
