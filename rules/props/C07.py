"""C07 -- a joiner ends up with exactly the members' state; a key package is used once."""
import re

from ..core.engine import Res
from ..core.rules import wire, must_pass, guard, errset, checked_calls, who_calls, branch_must_pass, call_matches
from ..core.origins import Origins
from ..core.fa_rule import fa_for

CONFIGS = {'quick': ['A'], 'thorough': ['A', 'B', 'C', 'D']}
LEVEL = 'other'
TECHNIQUE = ('must-pass / dominance queries on the Welcome and external-commit join paths, def-use wiring of the path-secret index, of the '
             'external init secret and of the used key-package reference from the Welcome down to the storage deletion')
EXPLANATION = ('JOIN-CHECKS: the Welcome path decrypts the group secrets with the key package found by its reference, decrypts and '
               'validates GroupInfo and tree, checks the path secret against the tree and the confirmation tag before the group is '
               'created (join_with); the external-commit path validates GroupInfo and tree first and takes the init secret and the '
               'KEM output of one encode_for_external call, the first feeding the key schedule and the second the ExternalInit '
               'proposal. PATH-SECRET-INDEX: the committer picks the joiner\'s path secret at leaf_lca_level(self, joiner) - 1 (leaf '
               'indices) and the joiner starts at leaf_lca_level(self, signer) - 2 (node indices): the sibling constants are pinned. '
               'KEY-PACKAGE-LIFECYCLE: the reference of the key package that opened the Welcome travels to '
               'GroupStateRepository::new and write_to_storage deletes exactly it (checked result); loading from a snapshot schedules '
               'nothing; the last-resort marking suppresses the deletion. State equality joiner vs members for every tree shape is not decided.')
EXPLANATION += ' WIRE: the GroupInfo of the new epoch and the update path are signed with the signer of the new epoch.'
ASSUMPTIONS = ['whether the index constants are right for every tree shape is value-level (tree math, C20 not claimed)']


def run(ctx):
    P = ctx.P
    cfg = ctx.config
    W = 'Group::from_welcome_message'
    D = 'Group::decrypt_group_info_internal'
    for name, rx in (('group secrets and group info decrypted', r'Group::decrypt_group_info_internal$'),
                     ('tree and group info validated', r'util::validate_tree_and_info_joiner$'),
                     ('own leaf located by the key package', r'TreeKemPublic::find_leaf_node$'),
                     ('key schedule from the joiner secret', r'KeySchedule::from_joiner$'),
                     ('confirmation tag checked', r'ConfirmationTag::matches$')):
        ctx.check('JOIN-CHECKS', 'welcome: %s before the group exists' % name,
                  lambda P_, rx=rx: must_pass(P_, W, rx, before_rx=r'Group::join_with$'), floor=1)
    ctx.check('GUARD', 'welcome: confirmation tag mismatch rejected',
              lambda P_: guard(P_, W, 'not', r'ConfirmationTag::matches', None, 'InvalidConfirmationTag'), floor=1)
    ctx.check('WIRE', 'welcome: own leaf is the leaf of the key package that opened the Welcome',
              lambda P_: wire(P_, W, r'TreeKemPublic::find_leaf_node$', 1, r'decrypt_group_info_internal\(.*\)\.1\.key_package\.leaf_node$'), floor=1)
    ctx.check('WIRE', 'welcome: group secrets opened with the init key of the matching key package',
              lambda P_: wire(P_, D, r'HpkeEncryptable::decrypt$', 1, r'^util::find_key_package_generation\(.*\)\.1\.init_secret_key$'), floor=1)
    ctx.check('WIRE', 'welcome: the secrets opened are the entry addressed to that key package',
              lambda P_: wire(P_, D, r'HpkeEncryptable::decrypt$', 4, r'^util::find_key_package_generation\(.*\)\.0\.encrypted_group_secrets$'), floor=1)
    ctx.check('WIRE', 'welcome: HPKE context is the encrypted group info',
              lambda P_: wire(P_, D, r'HpkeEncryptable::decrypt$', 3, r'encrypted_group_info$'), floor=1)
    F = 'util::find_key_package_generation'
    ctx.check('WIRE', 'key package looked up by the new_member reference of each entry',
              lambda P_: wire(P_, F, r'KeyPackageStorage::get$', 1, r'\.new_member$'), floor=1)
    ctx.check('ERRSET', 'no matching key package => WelcomeKeyPackageNotFound',
              lambda P_: errset(P_, fa_for(P_), [F], ['WelcomeKeyPackageNotFound']), floor=1)
    # path-secret index (sibling constants)
    ctx.check('PATH-SECRET-INDEX', 'committer: index = lca level (leaf indices) - 1',
              lambda P_: _closure_wire(P_, 'Group::encrypt_group_secrets', r'\[T\]::get$|Vec::get$|::get$', 1,
                                       r'^\(math::leaf_lca_level\(self\.private_tree\.self_index, leaf_index\) SubWithOverflow const 1\)\.0$'), floor=1)
    ctx.check('PATH-SECRET-INDEX', 'joiner: start = lca level (node indices) - 2',
              lambda P_: wire(P_, 'TreeKemPrivate::update_secrets', r'Iterator::skip$', 1,
                              r'^\(math::leaf_lca_level\(self\.self_index, signer_index\) SubWithOverflow const 2\)\.0$'), floor=1)
    ctx.check('WIRE', 'joiner: common ancestor taken with the GroupInfo signer',
              lambda P_: wire(P_, W, r'TreeKemPrivate::update_secrets$', 2, r'decrypt_group_info_internal\(.*\)\.0\.signer$'), floor=1)
    ctx.check('WIRE', 'joiner: path secret is the one from its GroupSecrets',
              lambda P_: wire(P_, W, r'TreeKemPrivate::update_secrets$', 3, r'decrypt_group_info_internal\(.*\)\.2\.path_secret$'), floor=1)
    # the GroupInfo a joiner (Welcome) or an external committer receives is signed by the committer's leaf OF THE NEW EPOCH: when the
    # commit rotates the committer's signing identity, that is the new signer, the one the update path installs in the tree
    ctx.check('WIRE', 'GroupInfo of the new epoch is signed with the signer of the new epoch',
              lambda P_: wire(P_, 'Group::commit_internal', r'Group::make_group_info$', 4, r'new_signer'), floor=1)
    ctx.check('WIRE', 'the update path (new leaf) is signed with the same signer',
              lambda P_: wire(P_, 'Group::commit_internal', r'TreeKem::encap$', 3, r'new_signer'), floor=1)
    from .C09 import generator_condition
    ctx.check('SIBLING', 'joiner and committer advance the path-secret generator under the same condition (joiner)',
              generator_condition('TreeKemPrivate::update_secrets'), floor=1)
    ctx.check('SIBLING', 'joiner and committer advance the path-secret generator under the same condition (committer)',
              generator_condition('TreeKem::encap'), floor=1)
    # key package lifecycle
    ctx.check('KEY-PACKAGE-LIFECYCLE', 'used reference handed to join_with',
              lambda P_: wire(P_, W, r'Group::join_with$', 6, r'^bool::then_some\(.*decrypt_group_info_internal\(.*\)\.1\.reference\)$'), floor=1)
    ctx.check('KEY-PACKAGE-LIFECYCLE', 'join_with schedules it for deletion',
              lambda P_: wire(P_, 'Group::join_with', r'GroupStateRepository::new$', 3 if cfg != 'B' else 2, r'^used_key_package_ref$'), floor=1)
    ctx.check('KEY-PACKAGE-LIFECYCLE', 'loading from a snapshot schedules nothing',
              lambda P_: wire(P_, 'Group::from_snapshot', r'GroupStateRepository::new$', 3 if cfg != 'B' else 2, r'^Option::None'), floor=1)
    R = 'GroupStateRepository::write_to_storage'
    ctx.check('KEY-PACKAGE-LIFECYCLE', 'write_to_storage deletes the scheduled reference',
              lambda P_: wire(P_, R, r'KeyPackageStorage::delete$', 1, r'self\.pending_key_package_removal'), floor=1)
    ctx.check('KEY-PACKAGE-LIFECYCLE', 'deletion result checked',
              lambda P_: checked_calls(P_, r'KeyPackageStorage::delete$', fn_rx=r'^GroupStateRepository::write_to_storage$'), floor=1)

    def delete_when_some(P_):
        """on the Some side of `pending_key_package_removal`, every success path passes the delete"""
        fn = P_.fn(R)
        body = P_.body(fn)
        o = Origins(body)
        r = Res()
        dels = [bi for bi, t in body.calls_named(r'KeyPackageStorage::delete$')]
        found = False
        for bi, b in enumerate(body.B):
            t = b['term']
            if t['k'] != 'switch':
                continue
            for st in b['st']:
                if st['rv']['k'] == 'discr' and re.search(r'self\.pending_key_package_removal$', o.place_str(st['rv']['pl'])):
                    found = True
                    some_t = [tg for v, tg in t['ts'] if v == '1'] or [t['o']]
                    r.site('%s @%s' % (R, b['ln']))
                    barriers = set(body.term(d)['t'] for d in dels)
                    reach = body.reach(some_t, barriers | set(body.err_blocks))
                    if any(body.term(x)['k'] == 'return' for x in reach) or not dels:
                        r.bad('not-deleted', 'write_to_storage can succeed with a scheduled key-package removal without deleting it', where=[b['ln']])
        if not found:
            r.bad('branch-missing', 'write_to_storage no longer branches on the scheduled key-package removal')
        return r
    ctx.check('KEY-PACKAGE-LIFECYCLE', 'a scheduled removal is carried out on every successful write', delete_when_some, floor=1)
    if cfg == 'C':
        ctx.check('KEY-PACKAGE-LIFECYCLE', 'last-resort key packages are kept',
                  lambda P_: wire(P_, W, r'bool::then_some$', 0, r'^Not\(ExtensionList::has_extension\(.*key_package\.extensions'), floor=1)
    # external commit
    X = 'ExternalCommitBuilder::build'
    ctx.check('JOIN-CHECKS', 'external commit: GroupInfo and tree validated before the group exists',
              lambda P_: must_pass(P_, X, r'util::validate_tree_and_info_joiner$', before_rx=r'Group::join_with$'), floor=1)
    ctx.check('ERRSET', 'external commit requires the external-pub extension',
              lambda P_: errset(P_, fa_for(P_), [X], ['MissingExternalPubExtension']), floor=1)
    ctx.check('WIRE', 'external init: HPKE export against the published external key',
              lambda P_: wire(P_, X, r'InitSecret::encode_for_external$', 1, r'MissingExternalPubExtension\{.*\}\)\.external_pub$'), floor=1)
    ctx.check('WIRE', 'external init: init secret feeds the key schedule',
              lambda P_: wire(P_, X, r'KeySchedule::new$', 0, r'^InitSecret::encode_for_external\(.*\)\.0$'), floor=1)

    def kem_output(P_):
        fn = P_.fn(X)
        body = P_.body(fn)
        o = Origins(body)
        r = Res()
        for b in body.B:
            for st in b['st']:
                rv = st['rv']
                if rv['k'] == 'agg' and rv['what'].endswith('ExternalInit::ExternalInit'):
                    got = {n: o.op_str(op) for n, op in zip(rv['names'], rv['ops'])}
                    r.site('%s kem_output <- %s' % (X, got.get('kem_output', '')[:80]))
                    if not re.search(r'^InitSecret::encode_for_external\(.*\)\.1$', got.get('kem_output', '')):
                        r.bad('kem-output', 'the ExternalInit proposal carries `%s`, not the KEM output of the same encode_for_external call' % got.get('kem_output'))
        return r
    ctx.check('WIRE', 'external init: KEM output of the same call goes into the ExternalInit proposal', kem_output, floor=1)
    ctx.check('WIRE', 'receiver derives the init secret from the applied ExternalInit',
              lambda P_: wire(P_, 'Group as MessageProcessor::update_key_schedule', r'KeySchedule::derive_for_external$', 1,
                              r'first\(provisional_state\.applied_proposals\.external_initializations\)\.proposal\.kem_output$'), floor=1)


def _closure_wire(P, fq, call_rx, arg, origin_rx):
    """WIRE over F and its closures"""
    fn = P.fn(fq)
    r = Res()
    rx = re.compile(call_rx)
    ok = False
    for k in [fn['key']] + P.closures_of(fn['key']):
        f = P.fns[k]
        body = P.body(f)
        o = Origins(body)
        for bi, t in body.calls(lambda t: call_matches(t, rx)):
            s = o.arg_str(t, arg)
            r.site('%s @%s arg%d = %s' % (f['qual'], body.ln(bi), arg, s[:140]))
            if re.search(origin_rx, s):
                ok = True
    if not ok:
        r.bad('wiring', 'in `%s` no call to %s has argument %d wired to /%s/ (found %s)' % (fq, call_rx, arg, origin_rx, r.sites[:3]))
    return r
