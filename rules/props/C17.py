"""C17 -- re-init and branch keep the membership rules and the link to the old group."""
import re

from ..core.engine import Res
from ..core.rules import guard, wire, must_pass, call_matches, install
from ..core.fa_rule import fa_for
from ..core.rules import reachable_bodies
from ..core.facts import callee_name
from ..core.origins import Origins

CONFIGS = {'quick': ['A'], 'thorough': ['A', 'C', 'D']}     # resumption needs the psk feature (not in B)
LEVEL = 'other'
TECHNIQUE = ('guard extraction with normalised relations, must-pass-through and def-use wiring on the resumption builder, '
             'call-graph query for tree-geometry accessors inside the membership comparison')
EXPLANATION = ('GUARD: a pending re-init blocks building and processing commits; joining a successor / branch group checks protocol '
               'version, cipher suite, epoch = 1, group id (re-init) and extensions, each with the right polarity and error. '
               'MUST-PASS: the membership comparison runs on both create and join. WIRE: the old group\'s resumption secret is '
               'always injected (never None) with the old group id and current epoch; a Welcome that does not reference a '
               'non-application resumption PSK first is rejected. SHAPE-INDEPENDENCE: the membership comparison depends only on '
               'identities / member counts: no call reachable from it reads the length of the node vector or a leaf count of the '
               'tree. Acceptance for every member set (value level) is not decided.')
EXPLANATION += ' FAIL-ATOMIC (restricted): the re-init marker is recorded only by a commit accepted as a whole.'
ASSUMPTIONS = ['the identity provider decides identity equality']

GEOMETRY = re.compile(r'(TreeKemPublic::(total_leaf_count|occupied_leaf_count)|NodeVec::(total_leaf_count|len|next_empty_leaf)|'
                      r'TreeKemPublic::total_leaf_count)$')


def run(ctx):
    P = ctx.P
    # the re-init marker freezes the group: it may be set only by a commit that was accepted as a whole
    from ..core.fa_rule import fail_atomic_paths
    ctx.check('FAIL-ATOMIC', 'the re-init marker is recorded only when the re-init commit is accepted',
              fail_atomic_paths(P, ['Group::process_incoming_message', 'Group::process_incoming_message_with_time', 'Group::apply_pending_commit'],
                                r'^state\.pending_reinit(\.|$)', 'a re-init commit that fails late leaves the group frozen in an epoch it never left'), floor=1)
    J = 'ResumptionGroupBuilder::join'
    ctx.check('GUARD', 'frozen after re-init (sender)',
              lambda P_: guard(P_, 'Group::commit_internal', 'truth', r'is_some\(self\.state\.pending_reinit\)', None, 'GroupUsedAfterReInit'), floor=1)
    ctx.check('GUARD', 'frozen after re-init (receiver)',
              lambda P_: guard(P_, 'MessageProcessor::process_commit', 'truth', r'is_some\(.*pending_reinit\)', None, 'GroupUsedAfterReInit'), floor=1)
    ctx.check('INSTALL', 're-init marker recorded when a re-init commit is accepted',
              lambda P_: install(P_, 'MessageProcessor::process_commit', {'pending_reinit': r'reinit|proposal'}, root=r'MessageProcessor::group_state_mut(self)'), floor=1)
    G = [
        ('join: protocol version', '!=', r'protocol_version\(.*from_welcome_message', r'self\.builder\.protocol_version', 'ProtocolVersionMismatch'),
        ('join: cipher suite', '!=', r'cipher_suite\(.*from_welcome_message', r'self\.builder\.cipher_suite', 'CipherSuiteMismatch'),
        ('join: epoch is one', '!=', r'current_epoch\(.*from_welcome_message', r'^const 1$', 'InitialEpochNotOne'),
        ('join: group id (re-init)', '!=', r'group_id\(.*from_welcome_message', r'self\.builder\.group_id', 'GroupIdMismatch'),
        ('join: extensions', '!=', r'from_welcome_message.*context\.extensions', r'self\.builder\.group_context_extensions', 'ReInitExtensionsMismatch'),
    ]
    for name, rel, a, b, err in G:
        ctx.check('GUARD', name, lambda P_, rel=rel, a=a, b=b, err=err: guard(P_, J, rel, a, b, err), floor=1)
    ctx.check('WIRE', 'join: the resumption PSK of the old group is always injected',
              lambda P_: wire(P_, J, r'Group::from_welcome_message$', 4, r'^Option::Some\{0: self\.psk_input\}$'), floor=1)
    ctx.check('MUST-PASS', 'join: membership comparison', lambda P_: must_pass(P_, J, r'resumption::check_that_subgroup_is_a_subset$'), floor=1)
    ctx.check('MUST-PASS', 'create: membership comparison',
              lambda P_: must_pass(P_, 'ResumptionGroupBuilder::create', r'resumption::check_that_subgroup_is_a_subset$'), floor=1)
    ctx.check('WIRE', 'join: membership is compared against the joined group',
              lambda P_: wire(P_, J, r'resumption::check_that_subgroup_is_a_subset$', 1, r'from_welcome_message\(.*\)\.0$'), floor=1)
    ctx.check('WIRE', 'resumption PSK id: old group id and current epoch',
              lambda P_: wire(P_, 'Group::resumption_psk_input', r'PreSharedKeyID::new$', 0,
                              r'Resumption\{0: ResumptionPsk::ResumptionPsk\{usage: usage, psk_group_id: PskGroupId::PskGroupId\{0: Group::group_id\(self\)\}, '
                              r'psk_epoch: Group::current_epoch\(self\)\}\}'), floor=1)
    ctx.check('WIRE', 'resumption PSK value is the resumption secret of the current epoch',
              lambda P_: _psk_value(P_), floor=1)
    ctx.check('GUARD', 'injected PSK requires a non-application resumption id in the Welcome',
              lambda P_: guard(P_, 'Group::psk_secret', '==', r'key_id<Resumption>\.0\.usage', r'.', 'UnexpectedPskId'), floor=1)
    def injected_never_falls_back(P_):
        """when a resumption PSK is injected (additional_psk = Some) the PSK secret is never computed from the PSK store:
        a Welcome that lists no PSK, or another first PSK, must be rejected, not resolved through the store"""
        fn = P_.fn('Group::psk_secret')
        body = P_.body(fn)
        o = Origins(body)
        r = Res()
        res_calls = [bi for bi, t in body.calls_named(r'PskResolver::resolve_to_secret$')]
        if not res_calls:
            return r.bad('call-missing', 'psk_secret no longer has a store-based branch')
        found = False
        for bi, b in enumerate(body.B):
            t = b['term']
            if t['k'] != 'switch':
                continue
            for st in b['st']:
                if st['rv']['k'] == 'discr' and re.search(r'additional_psk', o.place_str(st['rv']['pl'])):
                    found = True
                    some_t = [tg for v, tg in t['ts'] if v == '1'] or [t['o']]
                    r.site('psk_secret @%s match on additional_psk' % b['ln'])
                    reach = body.reach(some_t)
                    if any(c in reach for c in res_calls):
                        r.bad('fallback', 'with an injected resumption PSK, psk_secret can still reach the store-based resolver: a Welcome that does not '
                              'reference the old group\'s resumption PSK first is then accepted with whatever the store resolves (the all-zero secret '
                              'for an empty list)', where=[b['ln']])
        if not found:
            r.bad('branch-missing', 'psk_secret no longer branches on the injected PSK')
        return r
    ctx.check('GUARD', 'an injected resumption PSK never falls back to the PSK store', injected_never_falls_back, floor=1)
    C = 'resumption::check_that_subgroup_is_a_subset'
    ctx.check('GUARD', 'membership: subset', lambda P_: guard(P_, C, 'not', r'is_subset\(', None, 'NotASubgroup'), floor=1)
    ctx.check('GUARD', 're-init membership: same number of members',
              lambda P_: guard(P_, C, '!=', r'Iterator::count\(.*members_iter\(old_roster\)', r'Iterator::count\(.*members_iter\(.*new_group', 'NotASubgroup'), floor=1)

    def shape_free(P_):
        r = Res()
        fn = P_.fn(C)
        seen = reachable_bodies(P_, fa_for(P_), [(fn['key'], ())])
        for k, _ in sorted(seen):
            f = P_.fns[k]
            if f['crate'] != 'mls_rs':
                continue
            body = P_.body(f)
            o = None
            r.site(f['qual'])
            for bi, t in body.calls():
                cn = callee_name(t)
                if GEOMETRY.search(cn):
                    r.bad('geometry:%s|in=%s' % (cn, f['qual']), 'the membership comparison reaches `%s` in `%s`: its verdict depends on the '
                          'shape of the tree (blank leaves, trimming), not only on who the members are' % (cn, f['qual']), where=[body.ln(bi)])
                if re.search(r'::len$', cn) and t['args']:
                    if o is None:
                        o = Origins(body)
                    s = o.arg_str(t, 0)
                    if re.search(r'public_tree|\.nodes\b', s) and f['qual'] == C:
                        r.bad('geometry:len(%s)' % s[:60], 'the membership comparison reads the length of the node vector (`%s`), which depends '
                              'on the shape of the tree and not on the membership' % s[:100], where=[body.ln(bi)])
        return r
    ctx.check('SHAPE-INDEPENDENCE', 'membership comparison does not read tree geometry', shape_free, floor=3)


def _psk_value(P):
    fn = P.fn('Group::resumption_psk_input')
    body = P.body(fn)
    o = Origins(body)
    r = Res()
    for bi, b in enumerate(body.B):
        for st in b['st']:
            rv = st['rv']
            if rv['k'] == 'agg' and rv['what'].endswith('PskSecretInput::PskSecretInput'):
                got = {n: o.op_str(op) for n, op in zip(rv['names'], rv['ops'])}
                r.site('%s @%s psk <- %s' % (fn['qual'], st['ln'], got.get('psk', '')[:80]))
                if not re.search(r'^self\.epoch_secrets\.resumption_secret$', got.get('psk', '')):
                    r.bad('psk-value', 'the injected resumption PSK is built from `%s`, expected self.epoch_secrets.resumption_secret' % got.get('psk'), where=[st['ln']])
    return r
