"""C10 -- committer-side and receiver-side proposal validation agree."""
import json
import os
import re

from ..core.engine import Res
from ..core.facts import AnchorMissing
from ..core.rules import on_ok_must_pass
from ..core.rules import (who_reads_discr, wire, must_pass, errset, guard,
                          checked_calls)
from ..core.fa_rule import fa_for
from ..core.panics import TABLES

CONFIGS = {'quick': ['A'], 'thorough': ['A', 'B', 'C', 'D']}
LEVEL = 'other'
TECHNIQUE = ('who-may-branch query on the direction / strategy enums, def-use wiring of the direction constant, must-pass-through on the '
             'shared filter pipeline, guard and error inventories of the proposal rules, CFG ordering of tree blanking after update validation')
EXPLANATION = ('One rule set: committer (Group::commit_internal) and receiver (MessageProcessor::process_commit) both obtain the '
               'provisional state from GroupState::apply_resolved, differing only in the constant CommitDirection (WIRE). Only '
               'FilterStrategy::{ignore,is_ignore} branch on the strategy and only the From impl and apply_resolved (selection of '
               'reported unused proposals) branch on the direction (WHO-READS-DISCR), so no rule can apply to one side only. Every '
               'filter of the member and new-member pipelines is on every success path with its result checked (MUST-PASS); the '
               'path requirement is computed by the same function from the applied proposals on both sides; the proposal-rule '
               'guards and error variants confirmed on the reviewed tree are all still present (INVENTORY). Agreement on every '
               'multiset of proposals (value level) is not decided.')
EXPLANATION += ' ORDER: direct paths of updaters are blanked only after every update was accepted or rolled back. PAIRED-UPDATE: a leaf taken out of the node vector is taken out of the tree index on every path on which the removal succeeded.'
ASSUMPTIONS = ['application-supplied MlsRules / IdentityProvider are deterministic and the same on all members']

RULE_FNS = (r'^(filtering::|filtering_common::|filtering_lite::|ProposalApplier::|proposal_filter::|TreeKemPublic::(batch_edit|batch_edit_lite|add_leaf|update_leaf|apply_remove)|'
            r'TreeIndex::|tree_index::|LeafNodeValidator::|LeafNode::validate_|validator::validate_key_package|KeyPackageValidat|util::commit_sender|'
            r'ProposalCache::resolve_for_commit|proposal_cache::resolve_for_commit)')

MEMBER_FILTERS = ['filtering::filter_out_invalid_proposers', 'filtering::filter_out_update_for_committer', 'filtering::filter_out_removal_of_committer',
                  'filtering_common::filter_out_invalid_psks', 'filtering::filter_out_invalid_group_extensions',
                  'filtering::filter_out_extra_group_context_extensions', 'filtering::filter_out_invalid_reinit',
                  'filtering::filter_out_reinit_if_other_proposals', 'filtering::filter_out_external_init', 'ProposalApplier::apply_proposal_changes']
NEW_MEMBER_FILTERS = ['filtering_common::ensure_exactly_one_external_init', 'filtering_common::ensure_at_most_one_removal_for_self',
                      'filtering_common::ensure_proposals_in_external_commit_are_allowed', 'filtering_common::ensure_no_proposal_by_ref',
                      'filtering::filter_out_invalid_proposers', 'filtering_common::filter_out_invalid_psks',
                      'ProposalApplier::apply_proposal_changes', 'filtering_common::insert_external_leaf']
ERRS = ['InvalidProposalTypeForSender', 'InvalidCommitSelfUpdate', 'CommitterSelfRemoval', 'DuplicatePskIds',
        'MoreThanOneGroupContextExtensionsProposal', 'OtherProposalWithReInit', 'InvalidProtocolVersionInReInit',
        'InvalidTypeOrUsageInPreSharedKeyProposal', 'InvalidPskNonceLength', 'MissingRequiredPsk', 'UpdatingNonExistingMember',
        'RemovingNonExistingMember', 'ExternalCommitMustHaveExactlyOneExternalInit', 'OnlyMembersCanCommitProposalsByRef',
        'ExternalCommitRemovesOtherIdentity', 'InvalidSuccessor', 'UnsupportedCustomProposal',
        'RequiredExtensionNotFound', 'RequiredProposalNotFound', 'RequiredCredentialNotFound', 'InvalidLifetime', 'CommitMissingPath']


def _load(name):
    p = os.path.join(TABLES, name)
    return json.load(open(p)) if os.path.exists(p) else {}


def run(ctx):
    P = ctx.P
    cfg = ctx.config
    full = cfg != 'B'
    if full:
        ctx.check('WHO-READS-DISCR', 'FilterStrategy',
                  lambda P_: who_reads_discr(P_, 'FilterStrategy', [r'^FilterStrategy::(ignore|is_ignore)$']), floor=2)
        ctx.check('WHO-READS-DISCR', 'CommitDirection',
                  lambda P_: who_reads_discr(P_, 'CommitDirection', [r'^FilterStrategy as From::from$', r'^GroupState::apply_resolved$']), floor=1)
        ctx.check('WIRE', 'apply_resolved hands the direction to the shared applier',
                  lambda P_: wire(P_, 'GroupState::apply_resolved', r'ProposalApplier::apply_proposals$', 1, r'^direction$'), floor=1)
    ctx.check('WIRE', 'committer direction constant',
              lambda P_: wire(P_, 'Group::commit_internal', r'GroupState::apply_resolved$', 9 if full else 8, r'^CommitDirection::Send'), floor=1,
              configs=['A', 'C', 'D'])
    ctx.check('WIRE', 'receiver direction constant',
              lambda P_: wire(P_, 'MessageProcessor::process_commit', r'GroupState::apply_resolved$', 9 if full else 8, r'^CommitDirection::Receive'), floor=1,
              configs=['A', 'C', 'D'])
    ctx.check('MUST-PASS', 'committer uses the shared pipeline',
              lambda P_: must_pass(P_, 'Group::commit_internal', r'GroupState::apply_resolved$'), floor=1)
    ctx.check('MUST-PASS', 'receiver uses the shared pipeline',
              lambda P_: must_pass(P_, 'MessageProcessor::process_commit', r'GroupState::apply_resolved$'), floor=1)
    ctx.check('MUST-PASS', 'apply_resolved applies the proposals through the applier',
              lambda P_: must_pass(P_, 'GroupState::apply_resolved', r'ProposalApplier::apply_proposals$'), floor=1)
    if full:
        for f in MEMBER_FILTERS:
            ctx.check('MUST-PASS', 'member pipeline: ' + f,
                      lambda P_, f=f: must_pass(P_, 'ProposalApplier::apply_proposals_from_member', re.escape(f) + '$'), floor=1)
        for f in NEW_MEMBER_FILTERS:
            ctx.check('MUST-PASS', 'new-member pipeline: ' + f,
                      lambda P_, f=f: must_pass(P_, 'ProposalApplier::apply_proposals_from_new_member',
                                                # a module-private one-line forwarder may be inlined: what it forwards to counts as well
                                                re.escape(f) + '$' + (r'|TreeKemPublic::add_leaf$' if f.endswith('insert_external_leaf') else '')), floor=1)
        ctx.check('MUST-PASS', 'tree changes: new leaves validated', lambda P_: must_pass(P_, 'ProposalApplier::apply_tree_changes', r'ProposalApplier::validate_new_nodes$'), floor=1)
        ctx.check('MUST-PASS', 'tree changes: batch edit', lambda P_: must_pass(P_, 'ProposalApplier::apply_tree_changes', r'TreeKemPublic::batch_edit$'), floor=1)
    if full:
        NC = 'ProposalApplier::apply_proposals_with_new_capabilities'
        ctx.check('WIRE', 'proposals are first applied in the context of the proposed extensions',
                  lambda P_: wire(P_, NC, r'ProposalApplier::apply_tree_changes$', 3, r'^group_context_extensions_proposal\.proposal$', which='any'), floor=2)
        ctx.check('WIRE', 'when the extensions proposal is dropped, the rest is re-applied in the CURRENT context',
                  lambda P_: wire(P_, NC, r'ProposalApplier::apply_tree_changes$', 3, r'^self\.original_context\.extensions$', which='any'), floor=2)
    # the committer may DROP a by-reference Update that fails tree-level validation (filter mode): whatever was changed for that
    # update has to be undone, or the committer's tree differs from the one every receiver derives. The leaf is put back by the
    # rollback arm; the direct path cannot be put back, so it must be blanked only once no update can be rejected any more.
    def blank_after_validation(P_):
        from ..core.facts import callee_name as cn_
        fn = P_.fn('TreeKemPublic::batch_edit')
        body = P_.body(fn)
        r = Res()
        closures = {}
        for k in P_.closures_of(fn['key']):
            b2 = P_.body(P_.fns[k])
            if b2.calls_named(r'NodeVec::blank_direct_path$'):
                closures[k] = True
        sites = []
        for bi, t in body.calls():
            if re.search(r'NodeVec::blank_direct_path$', cn_(t)):
                sites.append(bi)
                continue
            for a in t['args']:
                if a['k'] in ('copy', 'move') and not a['pl']['p']:
                    for d in body.defs.get(a['pl']['l'], []):
                        if d[0] == 'st' and d[1]['k'] == 'agg' and d[1]['what'].startswith('closure:') and d[1]['what'][8:] in closures:
                            sites.append(bi)
        if not sites:
            raise AnchorMissing('batch_edit no longer blanks the direct path of the updated leaves')
        val = [bi for bi, t in body.calls_named(r'(^|::)index_insert$')]
        if not val:
            raise AnchorMissing('batch_edit no longer validates updates through index_insert')
        for s_ in sites:
            r.site('TreeKemPublic::batch_edit @%s blanks a direct path' % body.ln(s_))
            nxt = body.term(s_)['t']
            rc = body.reach([nxt]) if nxt is not None and nxt >= 0 else set()
            late = [v for v in val if v in rc]
            if late:
                r.bad('blank-before-validation', 'in `TreeKemPublic::batch_edit` the direct path of an updating leaf is blanked before the update is validated '
                      '(index_insert can still reject it afterwards): a dropped update leaves blank parents behind in the committer\'s tree only',
                      where=[body.ln(s_)] + [body.ln(v) for v in late[:2]])
        return r
    # a leaf taken out of the node vector is taken out of the identity / key index as well, on the committer (which may go on after a
    # failed by-reference Remove) exactly as on the receiver: a stale index entry makes the committer reject what receivers accept
    ctx.check('PAIRED-UPDATE', 'apply_remove: a leaf removed from the tree is removed from the tree index',
              lambda P_: on_ok_must_pass(P_, 'TreeKemPublic::apply_remove', r'NodeVec::blank_leaf_node$', r'TreeIndex::remove$',
                                         'removes a leaf from the node vector'), floor=1, configs=['A', 'C'])
    ctx.check('PAIRED-UPDATE', 'batch_edit: the old leaf of an Update is removed from the tree index when it is taken out of the tree',
              lambda P_: on_ok_must_pass(P_, 'TreeKemPublic::batch_edit', r'NodeVec::blank_leaf_node$', r'TreeIndex::remove$',
                                         'takes the old leaf of an Update out of the node vector'), floor=1, configs=['A', 'C'])
    ctx.check('ORDER', 'batch_edit: direct paths of updaters are blanked only after every update was accepted or rolled back', blank_after_validation, floor=1,
              configs=['A', 'C', 'D'])      # configuration B has no by-reference proposals, hence no droppable Update and no batch_edit
    # path requirement computed by one function on both sides from the applied proposals
    for fq in ('Group::commit_internal', 'MessageProcessor::process_commit'):
        ctx.check('WIRE', 'path requirement from the applied proposals: ' + fq,
                  lambda P_, fq=fq: wire(P_, fq, r'proposal_filter::path_update_required$|path_update_required$', 0, r'apply_resolved\(.*\)\.applied_proposals$'), floor=1)
    ctx.check('GUARD', 'receiver demands the path the committer would have sent',
              lambda P_: guard(P_, 'MessageProcessor::process_commit', 'truth', r'is_none\(.*path\)', None, 'CommitMissingPath'), floor=1)
    if full:
        ctx.check('ERRSET', 'rule violations reachable from the shared pipeline',
                  lambda P_: errset(P_, fa_for(P_), ['MessageProcessor::process_commit', 'Group::commit_internal'], ERRS,
                                    env={'Self': 'adt:mls_rs::group::Group'}), floor=18)
