"""Shared rule for the three-tier lookup of a prior epoch in GroupStateRepository (unwritten inserts -> cached updates -> storage),
used by C05 / C18 / C19: `resumption_secret` and `get_epoch_mut` must serve EXACTLY the epoch that was asked for, from whichever tier
holds it."""
import re

from ..core.engine import Res
from ..core.facts import AnchorMissing, callee_name
from ..core.origins import Origins
from ..core.guards import GuardExtractor, CMP

CLAMPED = re.compile(r'(saturating_sub|wrapping_sub|abs_diff|unwrap_or|::min\(|::max\(| Rem )')


def tiered_lookup(fq, storage_rx=r'GroupStateStorage::epoch$'):
    def f(P):
        fn = P.fn(fq)
        r = Res()
        bodies = [fn] + [P.fns[k] for k in P.closures_of(fn['key'])]
        # ---- tier 1: the unwritten inserts are indexed by the plain, guarded difference (requested - oldest)
        hits = []
        for g in bodies:
            body = P.body(g)
            o = Origins(body, resolve_upvars=True)
            for bi, t in body.calls_named(r'VecDeque::(get|get_mut)$|VecDeque.*Index(Mut)?::index(_mut)?$'):
                if 'pending_commit.inserts' not in o.arg_str(t, 0):
                    continue
                hits.append((g, body, o, bi, t))
        if not hits:
            raise AnchorMissing('`%s` no longer looks an epoch up in pending_commit.inserts' % fq)
        for g, body, o, bi, t in hits:
            idx = o.arg_str(t, 1)
            r.site('%s @%s inserts[%s]' % (g['qual'], body.ln(bi), idx[:90]))
            if re.fullmatch(r'[A-Za-z_]\w*', idx):
                continue        # an opaque closure parameter: where the offset comes from is not visible here; tiers 2 / 3 still apply
            if 'checked_sub(' in idx and not CLAMPED.search(idx):
                continue        # `requested.checked_sub(oldest)`: no slot at all for an epoch below the cache
            if CLAMPED.search(idx) or 'SubWithOverflow' not in idx:
                r.bad('clamped-index', 'in `%s` the unwritten-epoch cache is indexed by `%s`: a clamped / non-subtractive offset maps a request for an epoch '
                      'older than the cache to a slot of another epoch; expected the plain difference (requested - oldest cached), taken only when '
                      'requested >= oldest' % (g['qual'], idx[:160]), where=[body.ln(bi)])
                continue
            # operands of the subtraction
            m = re.search(r'\((.+) SubWithOverflow (.+?)\)\.0', idx)
            ok = False
            if m:
                a, b = m.group(1).lstrip('('), m.group(2)
                gx = GuardExtractor(body)
                for sb, blk in enumerate(body.B):
                    tt = blk['term']
                    if blk.get('cu') or tt['k'] != 'switch' or tt['d']['k'] not in ('copy', 'move') or tt['d']['pl']['p'] or len(tt['ts']) != 1:
                        continue
                    l = tt['d']['pl']['l']
                    if body.fn['locals'][l]['ty'] != 'bool':
                        continue
                    rel = gx.cond_of_local(l)
                    if rel[0] not in ('>=', '<', '<=', '>'):
                        continue
                    x, y = rel[1], rel[2]
                    v, tgt = tt['ts'][0]
                    false_t, true_t = (tgt, tt['o']) if v == '0' else (tt['o'], tgt)
                    # side on which a >= b holds
                    side = None
                    if x == a and y == b:
                        side = true_t if rel[0] == '>=' else (false_t if rel[0] == '<' else None)
                    elif x == b and y == a:
                        side = true_t if rel[0] == '<=' else (false_t if rel[0] == '>' else None)
                    if side is not None and (side == bi or body.dominates(side, bi)):
                        ok = True
            if not ok:
                r.bad('unguarded-offset', 'in `%s` the offset `%s` into the unwritten-epoch cache is not dominated by the test requested >= oldest cached'
                      % (g['qual'], idx[:120]), where=[body.ln(bi)])
        # ---- tier 2 / 3: having unwritten epochs must not hide the older ones: from the side where the inserts cache is non-empty,
        # the cached updates and the storage stay reachable
        body = P.body(fn)
        o = Origins(body)
        later = [bi for bi, t in body.calls_named(r'GroupStateRepository::find_pending$')] + [bi for bi, t in body.calls_named(storage_rx)]
        for k in P.closures_of(fn['key']):
            pass
        if not later:
            raise AnchorMissing('`%s` no longer falls back to the cached updates / the storage' % fq)
        front = [bi for bi, t in body.calls_named(r'VecDeque::front$') if 'pending_commit.inserts' in o.arg_str(t, 0)]
        if not front:
            raise AnchorMissing('`%s` no longer reads the oldest unwritten epoch (inserts.front())' % fq)
        found = False
        for sb, blk in enumerate(body.B):
            tt = blk['term']
            if blk.get('cu') or tt['k'] != 'switch' or tt['d']['k'] not in ('copy', 'move') or tt['d']['pl']['p']:
                continue
            for d in body.defs.get(tt['d']['pl']['l'], []):
                if d[0] != 'st' or d[1]['k'] != 'discr':
                    continue
                src = o.op_str({'k': 'copy', 'pl': d[1]['pl']})
                if not re.match(r'^(Option::map\()?VecDeque::front\(self\.pending_commit\.inserts\)', src):
                    continue
                tg = {str(v): t_ for v, t_ in tt['ts']}
                some_t = tg.get('1', tt['o'] if '0' in tg else None)
                if some_t is None:
                    continue
                found = True
                r.site('%s @%s some-side of inserts.front()' % (fq, blk['ln']))
                rc = body.reach([some_t])
                for x in later:
                    if x not in rc:
                        r.bad('older-epochs-hidden', 'in `%s`, once an unwritten epoch exists, %s is no longer reachable: an epoch older than the unwritten '
                              'ones (still retained in the cached updates or in storage) is reported as missing' % (fq, callee_name(body.term(x))),
                              where=[blk['ln'], body.ln(x)])
        if not found:
            raise AnchorMissing('`%s` no longer branches on inserts.front()' % fq)
        return r
    return f


def unordered_updates_cache(P):
    """the cached-updates list is in order of first access, not of epoch: only linear, equality-based searches are correct on it"""
    r = Res()
    n = 0
    for fn in P.fns.values():
        if not fn['loc'].startswith('mls-rs/src/group/state_repo') or fn.get('mac'):
            continue
        body = P.body(fn)
        o = None
        for bi, t in body.calls():
            cn = callee_name(t)
            if not re.search(r'(binary_search|partition_point|sort|is_sorted)', cn):
                continue
            o = o or Origins(body, resolve_upvars=True)
            if 'pending_commit.updates' in o.arg_str(t, 0):
                r.bad('ordered-search:' + fn['qual'], 'in `%s` %s is applied to pending_commit.updates, which is ordered by first access, not by epoch: '
                      'a stored epoch can be missed and loaded twice' % (fn['qual'], cn), where=[body.ln(bi)])
        for bi, t in body.calls_named(r'Iterator::(position|find|any)$'):
            o = o or Origins(body, resolve_upvars=True)
            if 'pending_commit.updates' in o.arg_str(t, 0):
                n += 1
                r.site('%s @%s linear search over the updates cache' % (fn['qual'], body.ln(bi)))
    if not n:
        r.bad('search-missing', 'no linear search over pending_commit.updates found in state_repo.rs')
    return r
