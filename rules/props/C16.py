"""C16 -- an external observer tracks exactly the members' public state, never panics."""
import re

from ..core.engine import Res
from ..core.origins import Origins
from ..core.facts import AnchorMissing
from ..core.rules import install, wire, must_pass, guard, assigns
from ..core.fa_rule import run_entries, fail_atomic
from ..core.panics import panic_audit

CONFIGS = {'quick': ['A'], 'thorough': ['A', 'C', 'D']}     # external_client is not part of configuration B
LEVEL = 'other'
TECHNIQUE = ('impl-table query (no override of the shared MessageProcessor pipeline), sibling comparison of installed state between '
             'member and observer, failure-atomicity dataflow and panic-site audit over the observer API')
EXPLANATION = ('SIBLING: neither Group nor ExternalGroup overrides the shared default methods of MessageProcessor (check_metadata, '
               'process_commit, process_proposal, ...), so both run the same admission and proposal rules; the observer installs '
               'exactly the public part (context, interim transcript hash, tree, confirmation tag, proposal cache reset) of what a '
               'member installs, each from the same provisional origin. WIRE: the only check the observer skips is the membership '
               'tag (membership key = None). FAIL-ATOMIC and PANIC-AUDIT over the public ExternalGroup API (the epoch-window '
               'arithmetic is a saturating subtraction). Agreement of values over histories is not decided.')
EXPLANATION += ' WIRE: the observer names the external-sender slot whose whole signing identity (credential and key) equals its own.'
ASSUMPTIONS = ['observer-visible state is GroupState; secrets are not part of the comparison']

SHARED = ['check_metadata', 'get_event_from_incoming_message', 'process_application_message', 'process_auth_content', 'process_commit',
          'process_event_or_content', 'process_incoming_message', 'process_incoming_message_with_time', 'process_proposal',
          'validate_key_package', 'validate_welcome']


def observer_api(P):
    out = []
    for f in P.fns.values():
        c = f['cont']
        if f['kind'] != 'AssocFn' or not c or c['kind'] != 'impl' or c['trait']:
            continue
        if not re.search(r'mls_rs::external_client::(group::ExternalGroup|ExternalClient)$', c['self_head']):
            continue
        if f['vis'].startswith('Public'):
            out.append(f['qual'])
    return sorted(set(out))


PANIC_SETS = {'observer': (observer_api, 'the public ExternalGroup / ExternalClient API')}


def own_sender_slot(P):
    """A proposal the observer issues names its slot in the group's external_senders list; members verify the signature against the
    entry at that slot. The slot must be the entry equal to the observer's WHOLE signing identity (credential and key): matching on
    one field picks another entry whenever two entries share it (key rotation of one service)."""
    from ..core.facts import callee_path, callee_name
    fn = P.fn('ExternalGroup::propose')
    r = Res()
    from ..core.facts import callee_resolved, module_private
    body = P.body(fn)
    # the lookup may live in propose itself or in a module-private helper it calls
    hosts = [fn]
    for bi, t in body.calls():
        h = P.fns.get(callee_resolved(t)) or P.fns.get(callee_path(t))
        if h is not None and h is not fn and module_private(h) and h['loc'].startswith('mls-rs/src/external_client/'):
            hosts.append(h)
    hosts = [h for h in hosts if P.body(h).calls_named(r'Iterator::(position|find|find_map|rposition)$')]
    if not hosts:
        raise AnchorMissing('ExternalGroup::propose no longer searches the external senders list')
    found = False
    keys = []
    for h in hosts:
        keys += [h['key']] + P.closures_of(h['key'])
    for k in keys:
        b2 = P.body(P.fns[k])
        o2 = Origins(b2)
        for bi, t in b2.calls():
            if not re.search(r'PartialEq::(eq|ne)$', callee_path(t)) or len(t['args']) != 2:
                continue
            a, c = o2.arg_str(t, 0), o2.arg_str(t, 1)
            if 'signing_identity' not in a + ' ' + c:
                continue
            found = True
            r.site('%s @%s %s == %s' % (P.fns[k]['qual'], b2.ln(bi), a[:50], c[:50]))
            for side in (a, c):
                if re.search(r'\.(credential|signature_key)\b', side):
                    r.bad('partial-identity', 'ExternalGroup::propose locates its own entry in external_senders by `%s == %s`: only part of the signing '
                          'identity is compared, so another entry with the same %s is taken for the observer\'s own' % (a[:80], c[:80], side.rsplit('.', 1)[-1]),
                          where=[b2.ln(bi)])
    if not found:
        r.bad('comparison-missing', 'ExternalGroup::propose no longer compares its signing identity with the entries of external_senders')
    return r


def run(ctx):
    P = ctx.P
    cfg = ctx.config
    ctx.check('WIRE', 'observer proposals name the external-sender slot that holds the observer\'s own identity and key', own_sender_slot, floor=1)

    def no_override(P_):
        r = Res()
        for name in SHARED:
            if ('mls_rs::group::message_processor::MessageProcessor', name) not in P_.defaults:
                r.bad('default-missing:' + name, 'MessageProcessor::%s is no longer a shared default method' % name)
                continue
            r.site('MessageProcessor::' + name)
            for who in ('Group', 'ExternalGroup'):
                if P_.is_override('MessageProcessor', who, name):
                    r.bad('override:%s::%s' % (who, name), '`%s` overrides the shared pipeline step MessageProcessor::%s: members and '
                          'observers no longer run the same checks' % (who, name))
        return r
    ctx.check('SIBLING', 'shared message pipeline is not overridden', no_override, floor=len(SHARED))
    E = 'ExternalGroup as MessageProcessor::update_key_schedule'
    ctx.check('INSTALL', 'observer installs the public part of the new epoch',
              lambda P_: install(P_, E, {'state.context': r'^provisional_public_state\.group_context$',
                                         'state.interim_transcript_hash': r'^interim_transcript_hash$',
                                         'state.public_tree': r'^provisional_public_state\.public_tree$',
                                         'state.confirmation_tag': r'^confirmation_tag$'}), floor=4)
    ctx.check('MUST-PASS', 'observer clears the proposal cache on a new epoch',
              lambda P_: must_pass(P_, E, r'ProposalCache::clear$', require_checked=False), floor=1)

    def sibling_install(P_):
        """the GroupState fields written by the observer are exactly the GroupState fields written by the member"""
        r = Res()
        m = set(a[2] for a in assigns(P_, 'Group as MessageProcessor::update_key_schedule', r'^self\.state\.'))
        o = set(a[2] for a in assigns(P_, E, r'^self\.state\.'))
        for x in sorted(m | o):
            r.site(x)
        if m != o:
            r.bad('install-mismatch', 'member installs %s of the public state, observer installs %s' % (sorted(m), sorted(o)))
        return r
    ctx.check('SIBLING', 'member and observer install the same public state fields', sibling_install, floor=4)
    ctx.check('WIRE', 'observer skips only the membership tag',
              lambda P_: wire(P_, 'ExternalGroup as MessageProcessor::verify_plaintext_authentication',
                              r'message_verifier::verify_plaintext_authentication$', 2, r'^Option::None'), floor=1)
    ctx.check('WIRE', 'oldest admissible epoch saturates at zero',
              lambda P_: wire(P_, 'ExternalGroup as MessageProcessor::min_epoch_available::{closure#0}', r'saturating_sub$', 0,
                              r'state\.context\.epoch'), floor=1)
    ents = [q for q in observer_api(P) if re.match(r'ExternalGroup::', q)
            and re.match(r"&('\w+ )?mut ", P.fn(q)['locals'][1]['ty'] if P.fn(q)['argc'] else '')
            and re.match(r'(std|core)::result::Result<', P.fn(q)['ret'])]
    sums, fa = run_entries(P, ents)
    for e in ents:
        ctx.check('FAIL-ATOMIC', e, lambda P_, e=e: fail_atomic(P_, e, sums[e], {}))
    for name, (entsf, label) in PANIC_SETS.items():
        ctx.check('PANIC-AUDIT', name, lambda P_, name=name, entsf=entsf, label=label:
                  panic_audit(P_, entsf(P_), 'panic_%s.json' % name, cfg, label)[0], floor=10)
