"""C19 -- late messages: exact retention window and never a wrong sender."""
import re

from ..core.engine import Res
from ..core.rules import must_pass, must_pass_from, guard, order, wire, who_calls, checked_calls
from ..core.origins import Origins
from ..core.facts import callee_name

CONFIGS = {'quick': ['A', 'P'], 'thorough': ['A', 'C', 'D', 'P']}     # prior_epoch feature absent from B
LEVEL = 'other'
TECHNIQUE = ('must-pass-through on the prior-epoch decryption branch, guard extraction with operand origins for the sender re-validation '
             'and the epoch chain, call ordering, offset guard and tier reachability of the prior-epoch lookup, trimming on every store write')
EXPLANATION = ('MUST-PASS: a message decrypted with the secrets of a past epoch is accepted only after the sender\'s signature key of '
               'that epoch has been compared with the key now at that leaf (mismatch => MemberNotFound), on every path. ORDER: prior '
               'epochs are looked up in pending inserts, then pending updates, then storage; new prior epochs are chained (id = max + 1, '
               'same group). TRIM: the in-memory store trims to the retention limit on every write and refuses a zero limit; the SQLite '
               'store deletes old epochs inside the write transaction. Only these structural clauses are decided: the exact window '
               'arithmetic and SQL semantics are not (statement texts are opaque).')
EXPLANATION += ' TIERED-LOOKUP: a retained epoch is found in whichever tier holds it (plain guarded offset into the unwritten epochs; older epochs stay reachable).'
ASSUMPTIONS = ['provider agreement on the window boundary is value-level and not decided']


def run(ctx):
    P = ctx.P
    from .repo_lookup import tiered_lookup
    ctx.check('TIERED-LOOKUP', 'a retained epoch is found in whichever tier holds it (unwritten, cached, stored)', tiered_lookup('GroupStateRepository::get_epoch_mut'), floor=2, configs=['A', 'C', 'D'])
    cfg = ctx.config
    if cfg == 'P':
        S = 'SqLiteGroupStateStorage::update_group_state'

        def delete_in_txn(P_):
            fn = P_.fn(S)
            body = P_.body(fn)
            o = Origins(body)
            r = Res()
            for bi, t in body.calls_named(r'Connection::execute$'):
                sql = o.arg_str(t, 1)
                if 'DELETE FROM epoch' in sql:
                    r.site('%s @%s %s' % (S, body.ln(bi), sql[:80]))
                    if not re.search(r'Connection::transaction\(', o.arg_str(t, 0)):
                        r.bad('delete-outside-transaction', 'old epochs are deleted outside the write transaction', where=[body.ln(bi)])
                    commits = [b for b, _ in body.calls_named(r'Transaction::commit$')]
                    if not commits or not all(b2 in body.reach([bi]) for b2 in commits):
                        r.bad('delete-after-commit', 'the epoch trimming is not followed by the transaction commit', where=[body.ln(bi)])
            if not r.sites:
                r.bad('trim-missing', 'the SQLite store no longer deletes epochs beyond the retention limit when writing')
            return r
        ctx.check('TRIM', 'sqlite: old epochs deleted inside the write transaction', delete_in_txn, floor=1)
        ctx.check('GUARD', 'sqlite: trimming only once more than the limit is stored',
                  lambda P_: _sqlite_guard(P_), floor=1)
        return
    V = 'util::validate_sender_signature_key_from_prior_epoch'
    D = 'Group::decrypt_incoming_ciphertext'
    ctx.check('MUST-PASS', 'prior-epoch ciphertext: sender key re-validated before acceptance',
              lambda P_: must_pass_from(P_, D, r'GroupStateRepository::get_epoch_mut$', re.escape(V) + '$'), floor=1)
    ctx.check('ORDER', 'prior-epoch ciphertext: re-validation after authentication',
              lambda P_: order(P_, D, r'message_verifier::verify_auth_content_signature$', re.escape(V) + '$'), floor=1)
    ctx.check('WIRE', 'sender key compared against the keys stored with that epoch',
              lambda P_: wire(P_, D, re.escape(V) + '$', 1, r'get_epoch_mut\(.*\)\.signature_public_keys$'), floor=1)
    ctx.check('WIRE', 'sender key compared against the current tree',
              lambda P_: wire(P_, D, re.escape(V) + '$', 0, r'^self\.state\.public_tree$'), floor=1)
    ctx.check('WIRE', 'the re-validated sender is the sender of the decrypted content',
              lambda P_: wire(P_, D, re.escape(V) + '$', 2, r'\.content\.sender$'), floor=1)
    ctx.check('GUARD', 'stored key differs from current key => rejected',
              lambda P_: guard(P_, V, '!=', r'get\(prior_epoch_signature_keys, sender<Member>\.0\)', r'try_from\(sender<Member>\.0\)', 'MemberNotFound'), floor=1)

    def cur_key(P_):
        r = Res()
        fn = P_.fn(V)
        cl = [P_.fns[k] for k in P_.closures_of(fn['key'])]
        got_leaf = False
        got_key = False
        for f in cl:
            body = P_.body(f)
            o = Origins(body)
            for bi, t in body.calls():
                if callee_name(t) == 'TreeKemPublic::get_leaf_node':
                    got_leaf = True
                    r.site('%s @%s' % (f['qual'], body.ln(bi)))
                if callee_name(t).endswith('Clone::clone') and re.search(r'signing_identity\.signature_key$', o.arg_str(t, 0)):
                    got_key = True
                    r.site('%s @%s' % (f['qual'], body.ln(bi)))
        if not got_leaf:
            r.bad('current-leaf', 'the current key is no longer taken from the leaf at the sender index of the current tree')
        if not got_key:
            r.bad('current-key', 'the compared value is no longer the signature key of that leaf')
        return r
    ctx.check('WIRE', 'current key = signature key of the leaf now at the sender index', cur_key, floor=2)
    G = 'GroupStateRepository::get_epoch_mut'
    ctx.check('ORDER', 'prior epochs: pending updates consulted before storage',
              lambda P_: order(P_, G, r'GroupStateRepository::find_pending$', r'GroupStateStorage::epoch$'), floor=1)
    ctx.check('ORDER', 'prior epochs: pending inserts consulted before pending updates',
              lambda P_: order(P_, G, r'VecDeque::front$', r'GroupStateRepository::find_pending$'), floor=1)
    ctx.check('STORAGE-CHECKED', 'epoch lookups surface storage errors',
              lambda P_: checked_calls(P_, r'GroupStateStorage::(epoch|max_epoch_id)$'), floor=2)
    I = 'GroupStateRepository::insert'
    ctx.check('GUARD', 'archived epochs form a chain (id = max + 1)',
              lambda P_: guard(P_, I, '!=', r'PriorEpoch::epoch_id\(epoch\)', r'find_max_id', 'InvalidEpoch', optional=True), floor=1)
    ctx.check('GUARD', 'archived epochs belong to this group',
              lambda P_: guard(P_, I, '!=', r'PriorEpoch::group_id\(epoch\)', r'self\.group_id', 'GroupIdMismatch'), floor=1)
    ctx.check('WHO-CALLS', 'prior epochs are archived only when the epoch changes',
              lambda P_: who_calls(P_, r'GroupStateRepository::insert$', [r'^Group::insert_past_epoch$']), floor=1)
    ctx.check('WHO-CALLS', 'insert_past_epoch callers',
              lambda P_: who_calls(P_, r'Group::insert_past_epoch$', [r'^Group as MessageProcessor::update_key_schedule$', r'^Group::apply_detached_commit$']), floor=2)
    M = 'InMemoryGroupStateStorage as GroupStateStorage::write'
    ctx.check('TRIM', 'in-memory: trimmed to the retention limit on every write',
              lambda P_: must_pass(P_, M, r'InMemoryGroupData::trim_epochs$', require_checked=False), floor=1)
    ctx.check('WIRE', 'in-memory: trimmed to the configured limit',
              lambda P_: wire(P_, M, r'InMemoryGroupData::trim_epochs$', 1, r'^self\.max_epoch_retention$'), floor=1)
    ctx.check('GUARD', 'in-memory: zero retention refused',
              lambda P_: guard(P_, 'InMemoryGroupStateStorage::with_max_epoch_retention', '<=', r'^max_epoch_retention$', r'^const 0$', 'NonZeroRetentionRequired'), floor=1)

    def trim_loop(P_):
        from ..core.guards import GuardExtractor
        fn = P_.fn('InMemoryGroupData::trim_epochs')
        body = P_.body(fn)
        gx = GuardExtractor(body)
        r = Res()
        ok = False
        for bi, b in enumerate(body.B):
            t = b['term']
            if t['k'] == 'switch' and t['d']['k'] in ('copy', 'move') and not t['d']['pl']['p'] and body.fn['locals'][t['d']['pl']['l']]['ty'] == 'bool':
                rel = gx.cond_of_local(t['d']['pl']['l'])
                r.site('trim_epochs loop condition: %s %s %s' % (rel[1][:40], rel[0], rel[2][:40]))
                if rel[0] == '>' and re.search(r'len\(self\.epoch_data\)', rel[1]) and rel[2] == 'max_epoch_retention':
                    ok = True
                if rel[0] == '<' and re.search(r'len\(self\.epoch_data\)', rel[2]) and rel[1] == 'max_epoch_retention':
                    ok = True
        # the same trimming written without a loop: drop the `len - limit` oldest at once (`drain(..len.saturating_sub(limit))`,
        # `drain(..len - limit)` under a `len > limit` test); the number dropped must be that difference and the end must be the front
        from ..core.origins import Origins as _O
        o_ = _O(body)
        for bi, t in body.calls_named(r'VecDeque::drain$'):
            rng = o_.arg_str(t, 1)
            r.site('trim_epochs drains %s' % rng[:90])
            if re.search(r'RangeTo\{end: (usize::)?saturating_sub\((VecDeque::)?len\(self\.epoch_data\), max_epoch_retention\)\}', rng) or \
               (ok and re.search(r'RangeTo\{end: \(+(VecDeque::)?len\(self\.epoch_data\) SubWithOverflow max_epoch_retention\)', rng)):
                return r
        if not ok:
            r.bad('trim-condition', 'trim_epochs no longer pops while len(epoch_data) > max_epoch_retention')
        pops = body.calls_named(r'VecDeque::pop_front$')
        if not pops:
            r.bad('trim-end', 'trim_epochs no longer drops the oldest epoch (pop_front)')
        return r
    ctx.check('TRIM', 'in-memory: keeps exactly the newest `limit` epochs (pop oldest while len > limit)', trim_loop, floor=1)


def _sqlite_guard(P):
    from ..core.guards import GuardExtractor
    fn = P.fn('SqLiteGroupStateStorage::update_group_state')
    body = P.body(fn)
    gx = GuardExtractor(body)
    r = Res()
    ok = False
    for bi, b in enumerate(body.B):
        t = b['term']
        if t['k'] == 'switch' and t['d']['k'] in ('copy', 'move') and not t['d']['pl']['p'] and body.fn['locals'][t['d']['pl']['l']]['ty'] == 'bool':
            rel = gx.cond_of_local(t['d']['pl']['l'])
            if re.search(r'max_epoch_retention', rel[1] + rel[2]):
                r.site('%s %s %s' % (rel[1][:60], rel[0], rel[2][:60]))
                if (rel[0] == '>=' and rel[2].endswith('self.max_epoch_retention')) or (rel[0] == '<=' and rel[1].endswith('self.max_epoch_retention')):
                    ok = True
    if not ok:
        r.bad('trim-condition', 'the SQLite store no longer trims when max_epoch_id >= max_epoch_retention')
    return r
