"""C12 -- wire codec: size / encode / decode agree, no allocation sized by a decoded integer,
length / varint / progress guards present, no new panic site reachable from any decoder."""
import re

from ..core import codec
from ..core.engine import Res
from ..core.facts import callee_path, AnchorMissing
from ..core.rules import guard, errset, reachable_bodies, who_calls
from ..core.fa_rule import fa_for
from ..core.panics import panic_audit

CONFIGS = {'quick': ['A'], 'thorough': ['A', 'B', 'C', 'D', 'P']}
LEVEL = 'other'
TECHNIQUE = ('cross-checking sibling implementations (size/encode/decode) over expanded MIR, guard extraction with normalised '
             'relations, reachability-based allocation and panic-site audit')
EXPLANATION = ('CODEC: for every type with MlsSize/MlsEncode/MlsDecode impls (derive-generated impls are analysed after macro '
               'expansion) the sets of per-success-path multisets of sub-codec operations of the three bodies must be equal, and '
               'for straight-line impls the sequences of fields touched must be equal. NO-ALLOC: no capacity-taking allocation is '
               'reachable from any decoder. GUARD: the varint prefix / minimal-length / length-prefix / zero-progress / duplicate-key '
               'guards exist with the expected normalised failing relation and error. PANIC-AUDIT: functions reachable from any '
               'decoder have no more undischarged potential panic sites than the reviewed baseline. Decides structural necessary '
               'conditions of the round-trip / exact-length / no-panic property, not value-level round-trips.')
ASSUMPTIONS = [
    'the 19 primitive impls of the mls-rs-codec crate itself are the trusted base of the CODEC rule (covered by GUARD / PANIC-AUDIT instead)',
    'value-level non-canonical forms (bool accepts any non-zero byte, duplicate ratchet history entries) are outside these rules',
]

MIN_TYPES = {'A': 135, 'B': 90, 'C': 135, 'D': 135, 'P': 3}


def decoder_roots(P):
    out = []
    for k, f in P.fns.items():
        if f['kind'] == 'Closure':
            continue
        if re.search(r'(MlsDecode::mls_decode|::mls_decode\w*|::from_bytes)$', f['qual']):
            out.append(f['qual'] if P.has_fn(f['qual']) else k)
    return sorted(set(out))


PANIC_SETS = {'decoders': (decoder_roots, 'any wire decoder')}


def rule_codec(P, only=None):
    r = Res()
    bt = codec.codec_types(P)
    n = 0
    for (crate, ty), impls in sorted(bt.items()):
        if crate == 'mls_rs_codec':
            continue
        if only is not None and not only(crate, ty):
            continue
        n += 1
        kinds, sets, bad = codec.compare_type(P, impls)
        fn0 = P.fns[impls[kinds[0]]]
        r.site('%s::%s (%s) @%s' % (crate, ty, '+'.join(kinds), fn0['loc']))
        if bad:
            desc = {k: [sorted('%s:%s x%d' % (a, b, c) for (a, b), c in s) for s in sorted(sets[k], key=lambda x: sorted(x))][:3] for k in kinds}
            r.bad('type=%s::%s|ops' % (crate, ty),
                  'codec impls of `%s` disagree on the sub-codec operations of their success paths: %s' % (ty, desc),
                  where=[P.fns[impls[k]]['loc'] for k in kinds])
            continue
        seqs = {k: codec.field_sequence(P, impls[k], k) for k in kinds}
        if all(v is not None for v in seqs.values()):
            ref = None
            for k in kinds:
                s = seqs[k]
                if ref is None:
                    ref = (k, s)
                    continue
                a, b = ref[1], s
                if len(a) != len(b) or any(x != y and x != '?' and y != '?' for x, y in zip(a, b)):
                    r.bad('type=%s::%s|order' % (crate, ty),
                          'codec impls of `%s` touch the fields in different orders: %s' % (ty, seqs),
                          where=[P.fns[impls[k]]['loc'] for k in kinds])
                    break
    r.detail = {'types_compared': n, 'primitive_types_trusted': sum(1 for (c, _) in bt if c == 'mls_rs_codec')}
    return r


ALLOC_RX = re.compile(r'(::with_capacity(_in)?$|::reserve(_exact)?$|::resize(_with)?$|::from_elem$|::repeat$|::try_reserve(_exact)?$|::extend_from_within$)')


def rule_noalloc(P):
    r = Res()
    roots = [(P.fn(q)['key'] if P.has_fn(q) else q, ()) for q in decoder_roots(P)]
    seen = reachable_bodies(P, fa_for(P), roots)
    keys = sorted(set(k for k, _ in seen))
    r.detail = {'decoder_roots': len(roots), 'reachable_bodies': len(keys)}
    for k in keys:
        fn = P.fns[k]
        r.site(fn['qual'])
        for b in fn['blocks']:
            if b.get('cu'):
                continue
            t = b['term']
            if t['k'] == 'call' and ALLOC_RX.search(re.sub(r'::<[^>]*>', '', callee_path(t))):
                r.bad('fn=%s|alloc=%s' % (fn['qual'], callee_path(t).split('::')[-1]),
                      'capacity-taking allocation %s is reachable from a wire decoder in `%s`: an allocation sized before the '
                      'elements are decoded lets a length field drive memory use' % (callee_path(t), fn['qual']), where=[b['ln']])
    return r


def run(ctx):
    P = ctx.P
    cfg = ctx.config
    ctx.check('CODEC', 'size-encode-decode-agreement', rule_codec, floor=MIN_TYPES.get(cfg, 3))
    ctx.check('NO-ALLOC', 'decoders', rule_noalloc, floor=100 if cfg != 'P' else 1)
    if cfg == 'P':
        return
    G = [
        ('varint-prefix', 'VarInt as MlsDecode::mls_decode', '>=', r'^\(MlsDecode::mls_decode\(reader\) Shr const 6\)$', r'^const 3$', 'InvalidVarIntPrefix'),
        ('varint-minimal', 'VarInt as MlsDecode::mls_decode', '!=', r'count_bytes_to_encode_int', r'.', 'VarIntMinimumLengthEncoding'),
        ('varint-range', 'mls_rs_codec|<varint::VarInt as std::convert::TryFrom<u32>>::try_from', '>', r'^n$', r'VarInt::MAX|1073741823', 'VarIntOutOfRange'),
        ('length-prefix-within-input', 'iter::mls_decode_split_on_collection', '>', r'^MlsDecode::mls_decode\(reader\)$', r'^\[T\]::len\(reader\)$', 'UnexpectedEOF'),
        ('vec-zero-progress', 'Vec as MlsDecode::mls_decode::{closure#0}', '==', r'^\[T\]::len\(data\)$', r'^\[T\]::len\(data\)$', 'InvalidContent'),
        ('hashmap-zero-progress', 'HashMap as MlsDecode::mls_decode::{closure#0}', '==', r'^\[T\]::len\(data\)$', r'^\[T\]::len\(data\)$', 'InvalidContent'),
        ('btreemap-zero-progress', 'BTreeMap as MlsDecode::mls_decode::{closure#0}', '==', r'^\[T\]::len\(data\)$', r'^\[T\]::len\(data\)$', 'InvalidContent'),
        ('hashmap-duplicate-key', 'HashMap as MlsDecode::mls_decode::{closure#0}', 'truth', r'is_some\(\w*::insert\(', None, 'InvalidContent'),
        ('btreemap-duplicate-key', 'BTreeMap as MlsDecode::mls_decode::{closure#0}', 'truth', r'is_some\(\w*::insert\(', None, 'InvalidContent'),
        ('leaf-index-bound', 'LeafIndex as TryFrom::try_from', '>', r'^value$', r'16777215|MAX_LEAF', 'InvalidTreeIndex'),
    ]
    for name, fq, rel, a, b, err in G:
        ctx.check('GUARD', name, lambda P_, fq=fq, rel=rel, a=a, b=b, err=err: guard(P_, fq, rel, a, b, err), floor=1)
    # length check dominates the split
    ctx.check('GUARD', 'length-prefix-dominates-split',
              lambda P_: guard(P_, 'iter::mls_decode_split_on_collection', '>', r'^MlsDecode::mls_decode\(reader\)$', r'^\[T\]::len\(reader\)$',
                               'UnexpectedEOF', dominates_rx=r'::split_at$'), floor=1)
    # codec error variants must stay constructible from the decoders (cheap canary for a deleted check)
    def codec_errs(P_):
        from ..core.rules import constructed_variants
        roots = [(P_.fn(q)['key'] if P_.has_fn(q) else q, ()) for q in decoder_roots(P_)]
        seen = reachable_bodies(P_, fa_for(P_), roots)
        cons = constructed_variants(P_, set(k for k, _ in seen), r'mls_rs_codec::Error')
        r = Res()
        for v in ['UnexpectedEOF', 'OptionOutOfRange', 'UnsupportedEnumDiscriminant', 'InvalidContent', 'InvalidVarIntPrefix',
                  'VarIntMinimumLengthEncoding']:
            if v in cons:
                r.site('%s: %s' % (v, cons[v][0]))
            else:
                r.bad('variant-unreachable:' + v, 'codec error %s is no longer raised by any decoder' % v)
        return r
    ctx.check('ERRSET', 'codec-errors', codec_errs, floor=6)
    # derived enum decoders reject unknown discriminants
    def enum_discr(P_):
        r = Res()
        from ..core.rules import constructed_variants
        n = 0
        for f in P_.fns.values():
            c = f['cont']
            if not c or c['kind'] != 'impl' or c['trait'] != 'mls_rs_codec::MlsDecode' or not f.get('mac'):
                continue
            sh = c['self_head']
            if not sh.startswith('adt:') or sh[4:] not in P_.adts or P_.adts[sh[4:]]['kind'] != 'Enum':
                continue
            n += 1
            cons = constructed_variants(P_, [f['key']], r'mls_rs_codec::Error')
            r.site(f['qual'])
            if 'UnsupportedEnumDiscriminant' not in cons:
                r.bad('enum=%s' % f['qual'], 'derived enum decoder `%s` no longer rejects unknown discriminants' % f['qual'], where=[f['loc']])
        return r
    ctx.check('GUARD', 'derived-enum-unknown-discriminant', enum_discr, floor=10)
    # length-prefixed helpers of the codec crate: size / encode / decode siblings must all go through VarInt
    def length_header(P_):
        r = Res()
        want = {'mls_encoded_len': r'<varint::VarInt as MlsSize>::mls_encoded_len$|VarInt as MlsSize::mls_encoded_len$',
                'mls_encode': r'VarInt as MlsEncode::mls_encode$',
                'mls_decode': r'VarInt as MlsDecode::mls_decode$'}
        res = fa_for(P_)
        n = 0
        for f in sorted(P_.fns.values(), key=lambda f: f['qual']):
            if f['crate'] != 'mls_rs_codec' or f['kind'] == 'Closure':
                continue
            m = re.search(r'^(byte_vec|iter)::(mls_encoded_len|mls_encode|mls_decode)\w*$', f['qual']) or \
                re.search(r'^(Vec|\[T\]|str|String|HashMap|BTreeMap) as Mls(Size|Encode|Decode)::(mls_encoded_len|mls_encode|mls_decode)$', f['qual'])
            if not m:
                continue
            kind = m.group(m.lastindex) if m.group(1) not in ('byte_vec', 'iter') else m.group(2)
            seen = reachable_bodies(P_, res, [(f['key'], ())])
            quals = set(P_.fns[k]['qual'] for k, _ in seen)
            n += 1
            r.site('%s -> %s' % (f['qual'], kind))
            if not any(re.search(want[kind], q) for q in quals):
                r.bad('fn=%s' % f['qual'], 'length-prefixed codec helper `%s` no longer computes its length header through VarInt (%s): '
                      'the size / encode / decode siblings can disagree on the header width' % (f['qual'], want[kind]), where=[f['loc']])
        return r
    ctx.check('CODEC', 'length-header-through-varint', length_header, floor=15)
    for name, (ents, label) in PANIC_SETS.items():
        ctx.check('PANIC-AUDIT', name, lambda P_, name=name, ents=ents, label=label:
                  panic_audit(P_, ents(P_), 'panic_%s.json' % name, cfg, label)[0], floor=5)
