"""C09 -- members hold exactly the private keys they are entitled to, matching the tree."""
import re

from ..core.engine import Res
from ..core.rules import exhaustive_loop
from ..core.rules import indexed_writes, wire, guard, install, branch_must_pass, assigns, must_pass, origin_call
from ..core.origins import Origins
from ..core.guards import GuardExtractor

CONFIGS = {'quick': ['A'], 'thorough': ['A', 'B', 'C', 'D']}
LEVEL = 'other'
TECHNIQUE = ('def-use wiring of every write into TreeKemPrivate.secret_keys (value, index and the public key it is paired with), '
             'dominance of the public-key-match guard over the key installation, branch-conditioned writes for blank nodes')
EXPLANATION = ('PAIR-INTEGRITY: in TreeKem::encap the secret key stored at secret_keys[i+1] and the public key installed with '
               'update_node come from the same to_hpke_key_pair call (.0 / .1), and a filtered node gets None; in TreeKem::decap and '
               'TreeKemPrivate::update_secrets a derived secret key is stored only after the derived public key was compared with '
               'the key in the tree (PubKeyMismatch guard dominates the store), at the index of that node. NO-KEY-FOR-BLANK: '
               'provisional_private_tree stores None for every direct-path node that is blank in the provisional tree. '
               'LEAF-KEY: encap replaces secret_keys[0] by the key returned from LeafNode::commit; an own update clears the whole '
               'path; a new epoch installs the provisional private tree and clears pending update keys. That stored keys actually '
               'decrypt (HPKE consistency as values) is not decided.')
EXPLANATION += ' FAIL-ATOMIC (restricted): the private key list is replaced only when nothing can fail any more.'
ASSUMPTIONS = ['to_hpke_key_pair is a deterministic key derivation: .0 is the private key of .1']

PAIR_RX = r'PathSecret::to_hpke_key_pair\((.*)\)\.0\}$'
# the slot of a path key is the enumerate() counter of the iteration over the whole (unfiltered) direct path / update path, plus one
INDEX_RX = (r'^\(Iterator::next\((Iterator::skip\()?Iterator::enumerate\((Iterator::zip\()?(NodeVec::direct_copath\(|update_path\.nodes)'
            r'.*\)\.0 AddWithOverflow const 1\)\.0$')


def generator_condition(fq):
    def f(P_):
        """the path-secret generator advances only for non-filtered nodes of the direct path (RFC 9420 7.4 / 12.4.3.1):
        committer (encap) and joiner (update_secrets) must agree on this, or they derive different keys above a filtered node"""
        r = Res()
        fn = P_.fn(fq)
        body = P_.body(fn)
        gx = GuardExtractor(body)
        ns = [bi for bi, t in body.calls_named(r'PathSecretGenerator::next_secret$')]
        if not ns:
            return r.bad('call-missing', '`%s` no longer derives path secrets with the generator' % fq)
        sides = []
        for bi, b in enumerate(body.B):
            t = b['term']
            if t['k'] == 'switch' and t['d']['k'] in ('copy', 'move') and not t['d']['pl']['p'] and body.fn['locals'][t['d']['pl']['l']]['ty'] == 'bool':
                rel = gx.cond_of_local(t['d']['pl']['l'])
                if rel[0] in ('truth', 'not') and re.search(r'^(Not::not\()?Iterator::next\(.*NodeVec::filtered\(.*\)\.1\.1\)?$', rel[1]):
                    v, tgt = t['ts'][0]
                    false_t, true_t = (tgt, t['o']) if v == '0' else (t['o'], tgt)
                    neg = rel[1].startswith('Not::not(') != (rel[0] == 'not')
                    sides.append((false_t if neg else true_t, true_t if neg else false_t, b['ln'], bi))
        if not sides:
            return r.bad('branch-missing', '`%s` no longer branches on the filtered flag of the direct-path node' % fq)
        for filtered_side, unfiltered_side, ln, sb in sides:
            for c in ns:
                # only generator steps inside the loop over the direct path (they can reach the branch again)
                if sb not in body.reach([c]):
                    continue
                r.site('%s @%s next_secret' % (fq, body.ln(c)))
                if not body.dominates(unfiltered_side, c):
                    r.bad('advance-on-filtered', 'in `%s` the path-secret generator is advanced at %s outside the not-filtered branch (%s): a filtered '
                          'node consumes a path secret, so this side derives different keys than the other side above it' % (fq, body.ln(c), ln),
                          where=[body.ln(c), ln])
        return r
    return f


def run(ctx):
    P = ctx.P
    # "each stored private key decrypts what is encrypted to the public key at that node of the CURRENT tree": the private key list of
    # the next epoch may be installed only when nothing can fail any more, or a rejected / failed commit leaves next-epoch keys behind
    from ..core.fa_rule import fail_atomic_paths
    ctx.check('FAIL-ATOMIC', 'the private key list changes only together with the epoch',
              fail_atomic_paths(P, ['Group::process_incoming_message', 'Group::process_incoming_message_with_time', 'Group::apply_pending_commit'],
                                r'^private_tree(\.|$)', 'a commit that is rejected or fails late leaves private keys of the next epoch in the current one'),
              floor=1)
    ctx.check('EXHAUSTIVE-LOOP', 'committer visits every node of its direct path', lambda P_: exhaustive_loop(P_, 'TreeKem::encap'), floor=1)
    ctx.check('EXHAUSTIVE-LOOP', 'receiver visits every node of the update path above the common ancestor', lambda P_: exhaustive_loop(P_, 'TreeKem::decap'), floor=1)
    ctx.check('EXHAUSTIVE-LOOP', 'joiner visits every node of its direct path above the common ancestor', lambda P_: exhaustive_loop(P_, 'TreeKemPrivate::update_secrets'), floor=1)
    cfg = ctx.config
    E = 'TreeKem::encap'

    def encap_pairs(P_):
        r = Res()
        ws = indexed_writes(P_, E, r'secret_keys')
        fn = P_.fn(E)
        body = P_.body(fn)
        o = Origins(body)
        un = [(bi, o.arg_str(t, 1), o.arg_str(t, 2)) for bi, t in body.calls_named(r'TreeKemPublic::update_node$')]
        some = [w for w in ws if w[3].startswith('Option::Some') and w[2] != 'const 0']
        none = [w for w in ws if w[3].startswith('Option::None')]
        leaf = [w for w in ws if w[2] == 'const 0']
        for w in ws:
            r.site('%s @%s [%s] := %s' % (E, w[4], w[2][-30:], w[3][:80]))
        if not some or not none or not leaf:
            return r.bad('writes', 'encap no longer writes Some(key) / None into the path and the leaf key into slot 0 (found %d/%d/%d)' % (len(some), len(none), len(leaf)))
        kp = [bi for bi, t in body.calls_named(r'PathSecret::to_hpke_key_pair$')]
        for w in some:
            src = origin_call(body, w[5])
            if src not in kp or not re.search(r'\)\.0\}$', w[3]):
                r.bad('secret-not-from-pair', 'the private key stored on the path is `%s`, not the .0 of a to_hpke_key_pair call' % w[3][:160], where=[w[4]])
                continue
            ok_pair = False
            for ub, pk, _ in un:
                t = body.term(ub)
                if origin_call(body, t['args'][1]) == src and pk.endswith(').1'):
                    ok_pair = True
            if not ok_pair:
                r.bad('pair-split', 'the public key installed in the tree (%s) does not come from the same key-pair derivation as the stored private key'
                      % [pk[-60:] for _, pk, _ in un], where=[w[4]])
            if not re.search(INDEX_RX, w[2]):
                r.bad('index', 'the path key is stored at index `%s`, expected (position in the UNFILTERED direct path) + 1' % w[2][-90:], where=[w[4]])
        # the Some-write and update_node sit on the not-filtered side, the None-write on the filtered side
        gx = GuardExtractor(body)
        ok = False
        for bi, b in enumerate(body.B):
            t = b['term']
            if t['k'] == 'switch' and t['d']['k'] in ('copy', 'move') and not t['d']['pl']['p'] and body.fn['locals'][t['d']['pl']['l']]['ty'] == 'bool':
                rel = gx.cond_of_local(t['d']['pl']['l'])
                if 'NodeVec::filtered' in rel[1]:
                    v, tgt = t['ts'][0]
                    false_t, true_t = (tgt, t['o']) if v == '0' else (t['o'], tgt)
                    neg = rel[1].startswith('Not::not(') != (rel[0] == 'not')
                    filtered_side = false_t if neg else true_t
                    other = true_t if neg else false_t
                    if all(body.dominates(other, w[0]) for w in some) and all(body.dominates(filtered_side, w[0]) for w in none) \
                            and all(body.dominates(other, u[0]) for u in un):
                        ok = True
        if not ok:
            r.bad('filtered-branch', 'encap no longer stores a key exactly for the non-filtered nodes (Some / update_node on the unfiltered side, None on the filtered side)')
        if not re.search(r'^Option::Some\{0: LeafNode::commit\(', leaf[0][3]):
            r.bad('leaf-key', 'secret_keys[0] is set from `%s`, expected the key returned by LeafNode::commit' % leaf[0][3][:120], where=[leaf[0][4]])
        return r
    ctx.check('PAIR-INTEGRITY', 'encap: stored private key and installed public key are one key pair', encap_pairs, floor=3)

    def guarded_store(fq, tree_key_rx):
        def f(P_):
            r = Res()
            fn = P_.fn(fq)
            body = P_.body(fn)
            ws = indexed_writes(P_, fq, r'secret_keys')
            some = [w for w in ws if w[3].startswith('Option::Some')]
            for w in ws:
                r.site('%s @%s [%s] := %s' % (fq, w[4], w[2][-30:], w[3][:80]))
            if not some:
                return r.bad('writes', '`%s` no longer stores derived path keys' % fq)
            gs = [g for g in GuardExtractor(body).guards() if 'PubKeyMismatch' in g.errs and g.rel == '!=' and g.idiom in ('branch', 'then_some')]
            if not gs:
                return r.bad('guard-missing', '`%s` no longer compares the derived public key with the key in the tree (PubKeyMismatch)' % fq)
            kp = [bi for bi, t in body.calls_named(r'PathSecret::to_hpke_key_pair$')]
            for w in some:
                src = origin_call(body, w[5])
                if src not in kp or not re.search(r'\)\.0\}$', w[3]):
                    r.bad('secret-not-from-pair', 'stored key `%s` is not the .0 of a key-pair derivation' % w[3][:120], where=[w[4]])
                    continue
                ok = False
                for g in gs:
                    if not g.raw:
                        continue
                    oa, ob = origin_call(body, g.raw[0]), origin_call(body, g.raw[1])
                    derived_side = g.lhs if oa == src else (g.rhs if ob == src else None)
                    other_side = g.rhs if oa == src else (g.lhs if ob == src else None)
                    if derived_side and derived_side.endswith(').1') and re.search(tree_key_rx, other_side):
                        if g.idiom == 'then_some':
                            pass_blocks = [g.pass_block] if g.pass_block is not None else []
                        else:
                            pass_blocks = [x for x in body.succs(g.block) if x != g.fail_block]
                        if pass_blocks and (body.dominates(pass_blocks[0], w[0]) or pass_blocks[0] == w[0]):
                            ok = True
                if not ok:
                    r.bad('unverified-key', 'in `%s` a derived private key is stored without the matching public key having been compared with the tree '
                          '(guards: %s)' % (fq, [g.text()[-160:] for g in gs]), where=[w[4]])
                if not re.search(INDEX_RX, w[2]):
                    r.bad('index', 'the path key is stored at index `%s`, expected (position in the UNFILTERED direct path) + 1' % w[2][-90:], where=[w[4]])
            return r
        return f
    ctx.check('PAIR-INTEGRITY', 'decap: key stored only after the public-key match', guarded_store('TreeKem::decap', r'public_key'), floor=1)
    ctx.check('PAIR-INTEGRITY', 'welcome: key stored only after the public-key match',
              guarded_store('TreeKemPrivate::update_secrets', r'PubKeyMismatch|public_key|borrow_node'), floor=1)
    ctx.check('SIBLING', 'committer advances the path-secret generator only for unfiltered nodes', generator_condition('TreeKem::encap'), floor=1)
    ctx.check('SIBLING', 'joiner advances the path-secret generator only for unfiltered nodes', generator_condition('TreeKemPrivate::update_secrets'), floor=1)
    PP = 'Group::provisional_private_tree'

    def blank_none(P_):
        # the sweep may live in the function itself or in a closure of it (`path.iter().enumerate().try_for_each(|(i, n)| ..)`)
        top = P_.fn(PP)
        last = None
        for key in [top['key']] + P_.closures_of(top['key']):
            last = blank_none_in(P_, key)
            if last.sites and not last.violations:
                return last
            if key == top['key']:
                first = last
        return first

    def blank_none_in(P_, PP):
        r = Res()
        ws = indexed_writes(P_, PP, r'secret_keys')
        fn = P_.fn(PP)
        body = P_.body(fn)
        none = [w for w in ws if w[3].startswith('Option::None')]
        if not none:
            # iterator form: `*key = None` through an element reference
            for bj, b in enumerate(body.B):
                for st in b['st']:
                    rv = st['rv']
                    is_none = rv['k'] == 'agg' and rv['what'].endswith('Option::None')
                    if rv['k'] == 'use' and rv['o']['k'] in ('copy', 'move') and not rv['o']['pl']['p']:
                        is_none = any(d[0] == 'st' and d[1]['k'] == 'agg' and d[1]['what'].endswith('Option::None')
                                      for d in body.defs.get(rv['o']['pl']['l'], []))
                    if st['lhs']['p'] == ['*'] and is_none:
                        none.append((bj, '', '', 'Option::None{}', st['ln'], None))
        for w in ws + [n for n in none if n not in ws]:
            r.site('%s @%s := %s' % (PP, w[4], w[3][:40]))
        if not none:
            return r.bad('writes', 'provisional_private_tree no longer drops keys of blank nodes')
        gx = GuardExtractor(body)
        ok = False
        for bi, b in enumerate(body.B):
            t = b['term']
            if t['k'] == 'switch' and t['d']['k'] in ('copy', 'move') and not t['d']['pl']['p'] and body.fn['locals'][t['d']['pl']['l']]['ty'] == 'bool':
                rel = gx.cond_of_local(t['d']['pl']['l'])
                if re.search(r'NodeVec::is_blank\(provisional_state\.public_tree\.nodes', rel[1]):
                    v, tgt = t['ts'][0]
                    false_t, true_t = (tgt, t['o']) if v == '0' else (t['o'], tgt)
                    blank_side = true_t if rel[0] == 'truth' else false_t
                    if all(body.dominates(blank_side, w[0]) for w in none):
                        # every path from the blank side back to the loop head passes the None write
                        ok = True
        if not ok:
            r.bad('blank-branch', 'the key is no longer dropped exactly when the node is blank in the provisional tree')
        return r
    ctx.check('NO-KEY-FOR-BLANK', 'keys of nodes blanked by the proposals are dropped', blank_none, floor=1)
    for fq, tree in (('Group::provisional_private_tree', r'provisional_state\.public_tree\.nodes'), ('TreeKem::encap', r'self\.tree_kem_public\.nodes'),
                     ('TreeKem::decap', r'self\.tree_kem_public\.nodes'), ('TreeKemPrivate::update_secrets', r'public_tree\.nodes')):
        ctx.check('KEY-LIST-SIZE', fq + ': key list truncated / extended to the direct path of the current tree',
                  lambda P_, fq=fq: must_pass(P_, fq, r'Vec::resize$', require_checked=False), floor=1)
        ctx.check('KEY-LIST-SIZE', fq + ': size = direct path length + 1, filled with None',
                  lambda P_, fq=fq, tree=tree: _resize_wire(P_, fq, tree), floor=1)
    ctx.check('WIRE', 'blankness is read from the provisional tree',
              lambda P_: wire(P_, PP, r'NodeVec::is_blank$', 0, r'^provisional_state\.public_tree\.nodes$'), floor=1)
    ctx.check('WIRE', 'direct path taken on the provisional tree',
              lambda P_: wire(P_, PP, r'NodeVec::direct_copath$', 0, r'^provisional_state\.public_tree\.nodes$'), floor=1)
    if cfg != 'B':
        def own_update(P_):
            r = Res()
            ws = indexed_writes(P_, 'TreeKemPrivate::update_leaf', r'secret_keys')
            a = assigns(P_, 'TreeKemPrivate::update_leaf', r'^self\.secret_keys$')
            for w in ws:
                r.site('update_leaf [%s] := %s' % (w[2], w[3][:40]))
            for x in a:
                r.site('update_leaf %s = %s' % (x[2], x[3][:60]))
            if not any(w[2] == 'const 0' and w[3] == 'Option::Some{0: new_leaf}' for w in ws):
                r.bad('leaf-slot', 'an own update no longer installs the new leaf key in slot 0')
            if not any(re.search(r'from_elem\(Option::None', x[3]) for x in a):
                r.bad('path-reset', 'an own update no longer clears the keys of the whole direct path (they belong to the replaced leaf key)')
            return r
        ctx.check('LEAF-KEY', 'own update: leaf key replaced, path cleared', own_update, floor=2)
        ctx.check('WIRE', 'own update: key looked up by the public key of the applied update',
                  lambda P_: wire(P_, PP, r'HashMap::get$', 1, r'proposal\.leaf_node\.public_key$'), floor=1, configs=['A', 'C', 'D'])
        ctx.check('INSTALL', 'new epoch: pending update keys cleared',
                  lambda P_: install(P_, 'Group as MessageProcessor::update_key_schedule', {'pending_updates': r'Default::default'}), floor=1)
    ctx.check('INSTALL', 'new epoch: provisional private tree installed',
              lambda P_: install(P_, 'Group as MessageProcessor::update_key_schedule', {'private_tree': r'secrets\.0'}), floor=1)
    ctx.check('WIRE', 'receiver: decapsulation works on the provisional private tree',
              lambda P_: wire(P_, 'Group as MessageProcessor::apply_update_path', r'TreeKem::new$', 1, r'provisional_private_tree\(self, provisional_state\)\.0$'), floor=1)
    ctx.check('WIRE', 'committer: encapsulation works on the provisional private tree',
              lambda P_: wire(P_, 'Group::commit_internal', r'TreeKem::new$', 1, r'^Group::provisional_private_tree\(self, GroupState::apply_resolved\('), floor=1)


def _resize_wire(P, fq, tree_rx):
    fn = P.fn(fq)
    body = P.body(fn)
    o = Origins(body)
    r = Res()
    for bi, t in body.calls_named(r'Vec::resize$'):
        a0, a1, a2 = o.arg_str(t, 0), o.arg_str(t, 1), o.arg_str(t, 2)
        if not re.search(r'secret_keys$', a0):
            continue
        r.site('%s @%s resize(%s, %s, %s)' % (fq, body.ln(bi), a0[-30:], a1[:80], a2[:20]))
        if not re.search(r'^\(Vec::len\(NodeVec::direct_copath\(%s, .*\)\) AddWithOverflow const 1\)\.0$' % tree_rx, a1):
            r.bad('size', 'in `%s` the private key list is resized to `%s`, expected len(direct path of the current tree) + 1' % (fq, a1[:160]), where=[body.ln(bi)])
        if not a2.startswith('Option::None'):
            r.bad('fill', 'in `%s` new key slots are filled with `%s`, expected None' % (fq, a2[:60]), where=[body.ln(bi)])
    if not r.sites:
        r.bad('resize-missing', '`%s` no longer sizes the private key list to the direct path: keys of a larger, earlier tree survive a shrink' % fq, where=[fn['loc']])
    return r
