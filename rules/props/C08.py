"""C08 -- every reachable ratchet tree is valid and matches the context tree hash."""
import json
import os
import re

from ..core.engine import Res
from ..core.facts import AnchorMissing
from ..core.rules import exhaustive_loop
from ..core.rules import (who_calls, who_writes, must_pass, order, wire, guard,
                          call_matches)
from ..core.origins import Origins
from ..core.panics import TABLES

CONFIGS = {'quick': ['A'], 'thorough': ['A', 'B', 'C', 'D']}
LEVEL = 'other'
TECHNIQUE = ('ordering / must-pass queries for the hash-cache discipline (mutation -> update_hashes -> tree_hash), who-may-mutate queries on '
             'the node vector and hash cache, def-use wiring of the touched-leaf set, validator completeness, guard inventory, relation '
             'check on every comparison with a bound of a subtree leaf range (half-open), loop exhaustiveness')
EXPLANATION = ('HASH-CACHE: every tree-hash read that ends up in a group context is preceded, on every path, by update_hashes over the '
               'leaves touched since the last update: process_commit (sender), commit_internal (self index), batch_edit (removed, '
               'updated, added, self-removed leaves), update_parent_hashes (before and after the parent-hash rewrite), encap. Only '
               'tree_hash.rs writes the hash cache and only the audited functions mutate the node vector (a new mutation site is a '
               'violation until classified). TRIM/UNMERGED: batch_edit trims after edits; add_leaf records the new leaf as unmerged. '
               'VALIDATOR: TreeValidator::validate runs all five sub-validations with checked results (also under C03) and their '
               'guards are all present. Hash values against an independent implementation are not decided.')
EXPLANATION += " RANGE: every comparison with a bound of a subtree's leaf range is half open. ORDER: a leaf enters the node vector only after the uniqueness check accepted it."
ASSUMPTIONS = ['leftmost-blank placement arithmetic (next_empty_leaf) is value-level and not decided']

TREE_FNS = r'^(TreeKemPublic::|TreeValidator::|tree_validator::|NodeVec::|tree_hash::|TreeHashes::|parent_hash::|ParentHash)'

MUTATORS = (r'NodeVec::(insert_leaf|blank_leaf_node|blank_direct_path|trim|borrow_as_leaf_mut|borrow_as_parent_mut|borrow_node_mut|'
            r'borrow_or_fill_node_as_parent|empty_leaves)$')


def _load(name):
    p = os.path.join(TABLES, name)
    return json.load(open(p)) if os.path.exists(p) else {}


def half_open_range(fq, bounds):
    """Every comparison of an element with a bound of the subtree range in F (and its closures) treats the range as half open,
    [left, right): elements are skipped while `elem < left` and taken while `elem < right`. Whatever the search looks like (two
    scans, take_while, partition_point), an off-by-one shows as `<=` / `>` against one of the bounds."""
    def f(P):
        from ..core.guards import GuardExtractor, CMP
        from ..core.facts import callee_path
        fn = P.fn(fq)
        r = Res()
        seen = 0
        for g in [fn] + [P.fns[k] for k in P.closures_of(fn['key'])]:
            body = P.body(g)
            gx = GuardExtractor(body, resolve_upvars=True)
            rels = []
            for bi, b in enumerate(body.B):
                if b.get('cu'):
                    continue
                for st in b['st']:
                    rv = st['rv']
                    if rv['k'] == 'bin' and rv['op'] in CMP:
                        rels.append((CMP[rv['op']], gx.o.op_str(rv['a']), gx.o.op_str(rv['b']), st['ln']))
                t = b['term']
                if t['k'] == 'call':
                    m = re.search(r'PartialOrd::(lt|le|gt|ge)$', callee_path(t))
                    if m and len(t['args']) == 2:
                        rels.append(({'lt': '<', 'le': '<=', 'gt': '>', 'ge': '>='}[m.group(1)], gx.o.op_str(t['args'][0]), gx.o.op_str(t['args'][1]), b['ln']))
            for rel, a, c, ln in rels:
                for bname, brx in bounds.items():
                    if re.search(brx, c) and not re.search(brx, a):
                        rr = rel
                    elif re.search(brx, a) and not re.search(brx, c):
                        rr = {'<': '>', '>': '<', '<=': '>=', '>=': '<='}.get(rel)
                    else:
                        continue
                    if rr is None or rr in ('==', '!='):
                        continue
                    seen += 1
                    r.site('%s @%s elem %s %s' % (g['qual'], ln, rr, bname))
                    if rr not in ('<', '>='):
                        r.bad('closed-bound:' + bname, 'in `%s` an element is compared with the %s bound of the subtree range as `elem %s %s`: the range of '
                              'leaves below a node is half open [left, right), the test has to be `elem < %s` (or its negation)' % (g['qual'], bname, rr, bname, bname),
                              where=[ln])
        if not seen:
            raise AnchorMissing('`%s` no longer compares elements with the bounds of the subtree range' % fq)
        return r
    return f


def run(ctx):
    P = ctx.P
    ctx.check('RANGE', 'unmerged leaves below a node are selected from the half-open leaf range of its subtree',
              half_open_range('TreeKemPublic::unmerged_in_subtree', {'left': r'math::subtree\(.*\)\.left$|^left$', 'right': r'math::subtree\(.*\)\.right$|^right$'}), floor=2)
    ctx.check('EXHAUSTIVE-LOOP', 'unmerged bookkeeping covers the whole direct path', lambda P_: exhaustive_loop(P_, 'TreeKemPublic::update_unmerged'), floor=1)
    ctx.check('EXHAUSTIVE-LOOP', 'every node of the update path is installed', lambda P_: exhaustive_loop(P_, 'TreeKemPublic::apply_update_path'), floor=1)
    ctx.check('EXHAUSTIVE-LOOP', 'hash refresh visits every queued node', lambda P_: exhaustive_loop(P_, 'tree_hash::tree_hash'), floor=1)
    ctx.check('EXHAUSTIVE-LOOP', 'every node of the received path is unfiltered into place', lambda P_: exhaustive_loop(P_, 'update_path::validate_update_path'), floor=1)
    cfg = ctx.config
    PC = 'MessageProcessor::process_commit'
    ctx.check('HASH-CACHE', 'receiver: hashes updated before the context tree hash is read',
              lambda P_: must_pass(P_, PC, r'TreeKemPublic::update_hashes$', before_rx=r'TreeKemPublic::tree_hash$'), floor=1)
    ctx.check('HASH-CACHE', 'receiver: the committer leaf is in the touched set',
              lambda P_: wire(P_, PC, r'TreeKemPublic::update_hashes$', 1, r'^\[util::commit_sender\('), floor=1)
    ctx.check('ORDER', 'receiver: update path applied before hashing',
              lambda P_: order(P_, PC, r'GroupState::apply_resolved$', r'TreeKemPublic::update_hashes$'), floor=1)
    CI = 'Group::commit_internal'
    ctx.check('HASH-CACHE', 'committer: hashes updated (or encap ran) before the tree hash is read',
              lambda P_: must_pass(P_, CI, r'TreeKemPublic::update_hashes$|TreeKem::encap$', before_rx=r'TreeKemPublic::tree_hash$'), floor=1)
    E = 'TreeKem::encap'
    ctx.check('HASH-CACHE', 'encap: parent hashes rewritten then hashes updated before the tree hash',
              lambda P_: must_pass(P_, E, r'TreeKemPublic::update_hashes$', before_rx=r'TreeKemPublic::tree_hash$'), floor=1)
    def no_key_install_after_parent_hash(P_):
        fn = P_.fn(E)
        body = P_.body(fn)
        r = Res()
        ph = [bi for bi, t in body.calls_named(r'TreeKemPublic::update_parent_hashes$')]
        un = [bi for bi, t in body.calls_named(r'TreeKemPublic::update_node$')]
        if not ph or not un:
            return r.bad('call-missing', 'encap no longer installs path keys / recomputes parent hashes')
        after = body.reach([body.term(p)['t'] for p in ph if body.term(p)['t'] >= 0])
        for u in un:
            r.site('%s @%s' % (E, body.ln(u)))
            if u in after:
                r.bad('key-after-parent-hash', 'encap installs a path key after the parent hashes were computed (stale parent hash)', where=[body.ln(u)])
        return r
    ctx.check('ORDER', 'encap: parent hashes after the new path keys are installed', no_key_install_after_parent_hash, floor=1)
    ctx.check('MUST-PASS', 'encap: parent hashes recomputed', lambda P_: must_pass(P_, E, r'TreeKemPublic::update_parent_hashes$'), floor=1)
    UP = 'TreeKemPublic::update_parent_hashes'

    def before_and_after(P_):
        fn = P_.fn(UP)
        body = P_.body(fn)
        r = Res()
        uh = [bi for bi, t in body.calls_named(r'TreeKemPublic::update_hashes$')]
        ph = [bi for bi, t in body.calls_named(r'TreeKemPublic::parent_hash_for_leaf$')]
        for b in uh:
            r.site('%s @%s' % (UP, body.ln(b)))
        if len(uh) < 2 or not ph:
            return r.bad('count', 'update_parent_hashes no longer refreshes the hash cache both before and after rewriting the parent hash (update_hashes x%d)' % len(uh))
        if not any(body.dominates(u, ph[0]) for u in uh):
            r.bad('before', 'the original hashes are no longer refreshed before the parent hash of the leaf is computed', where=[body.ln(ph[0])])
        # after: every success return is preceded by an update_hashes that comes after parent_hash_for_leaf
        later = [u for u in uh if u in body.reach([ph[0]])]
        if not later:
            r.bad('after', 'the hash cache is no longer refreshed after the parent hash was rewritten')
        return r
    ctx.check('HASH-CACHE', 'update_parent_hashes: refresh before and after the rewrite', before_and_after, floor=2)
    if cfg != 'B':
        BE = 'TreeKemPublic::batch_edit'
        ctx.check('HASH-CACHE', 'batch_edit: hashes updated after the last mutation',
                  lambda P_: must_pass(P_, BE, r'TreeKemPublic::update_hashes$'), floor=1)
        ctx.check('HASH-CACHE', 'batch_edit: touched set = removed + updated + added leaves',
                  lambda P_: wire(P_, BE, r'TreeKemPublic::update_hashes$', 1,
                                  r'chain\(.*chain\(.*map\(ProposalBundle::remove_proposals\(proposal_bundle\).*updated_indices\).*added\)'
                                  if cfg != 'C' else r'remove_proposals\(proposal_bundle\).*updated_indices.*added.*self_removed'), floor=1)
        ctx.check('ORDER', 'batch_edit: trim before hashing', lambda P_: order(P_, BE, r'NodeVec::trim$', r'TreeKemPublic::update_hashes$'), floor=1)
        ctx.check('MUST-PASS', 'batch_edit: no trailing blanks left', lambda P_: must_pass(P_, BE, r'NodeVec::trim$', require_checked=False), floor=1)

        def muts_before_hash(P_):
            """no node-vector mutation in batch_edit after its update_hashes"""
            fn = P_.fn(BE)
            body = P_.body(fn)
            r = Res()
            uh = [bi for bi, t in body.calls_named(r'TreeKemPublic::update_hashes$')]
            mrx = re.compile(MUTATORS + r'|TreeKemPublic::(add_leaf|apply_remove|update_node)$')
            for bi, t in body.calls(lambda t: call_matches(t, mrx)):
                r.site('%s @%s' % (BE, body.ln(bi)))
                for u in uh:
                    if bi in body.reach([u]) and bi != u:
                        r.bad('mutation-after-hash', 'batch_edit mutates the tree after refreshing the hash cache', where=[body.ln(bi)])
            return r
        ctx.check('HASH-CACHE', 'batch_edit: no mutation after the cache refresh', muts_before_hash, floor=3)
    TH = 'tree_hash::tree_hash'
    ctx.check('HASH-CACHE', 'cache resized to the node count of the tree on every refresh (grown AND truncated)',
              lambda P_: must_pass(P_, TH, r'Vec::resize$', require_checked=False), floor=1)
    ctx.check('HASH-CACHE', 'cache size = 2 * leaves - 1',
              lambda P_: wire(P_, TH, r'Vec::resize$', 1, r'^\(\(num_leaves MulWithOverflow const 2\)\.0 SubWithOverflow const 1\)\.0$'), floor=1)
    ctx.check('HASH-CACHE', 'the resized vector is the cache being refreshed',
              lambda P_: wire(P_, TH, r'Vec::resize$', 0, r'^hashes$'), floor=1)
    ctx.check('WHO-WRITES', 'hash cache written only by tree_hash.rs',
              lambda P_: who_writes(P_, 'TreeKemPublic', 'tree_hashes',
                                    [r'^TreeKemPublic::(update_hashes|initialize_hashes|import_node_data)$', r'^TreeKemPublic as (Clone|Default|MlsDecode)::',
                                     r'^TreeKemPublic::(new|derive)$']), floor=2)
    ctx.check('WHO-CALLS', 'node-vector mutation sites',
              lambda P_: who_calls(P_, MUTATORS, [r'^TreeKem::encap$', r'^TreeKemPublic::(add_leaf|apply_remove|apply_update_path|batch_edit|batch_edit_lite|'
                                                  r'parent_hash_for_leaf|update_node|update_parent_hashes|update_unmerged|update_leaf|update_committer_leaf|rekey_leaf|derive)$',
                                                  r'^NodeVec::', r'^filtering_common::insert_external_leaf$']), floor=8)
    ctx.check('WHO-WRITES', 'node vector replaced only by the audited functions',
              lambda P_: who_writes(P_, 'TreeKemPublic', 'nodes',
                                    [r'^TreeKemPublic::', r'^TreeKem::encap$', r'^TreeKemPublic as (Clone|Default|MlsDecode)::',
                                     r'^(Client|ExternalClient)::load_group_with_ratchet_tree$', r'^ExternalGroup::snapshot_without_ratchet_tree$',
                                     r'^Group::write_to_storage_without_ratchet_tree$', r'^RawGroupState::(export|import)$']), floor=8)
    A = 'TreeKemPublic::add_leaf'
    ctx.check('MUST-PASS', 'add_leaf: new leaf recorded as unmerged', lambda P_: must_pass(P_, A, r'TreeKemPublic::update_unmerged$'), floor=1)
    ctx.check('ORDER', 'add_leaf: inserted before unmerged bookkeeping', lambda P_: order(P_, A, r'NodeVec::insert_leaf$', r'TreeKemPublic::update_unmerged$'), floor=1)
    # the committer may drop a by-reference Add that add_leaf rejects (duplicate identity / key): a leaf must enter the node vector
    # only after the uniqueness check accepted it, or the rejected leaf stays in the committer's tree
    ctx.check('ORDER', 'add_leaf: uniqueness check before the leaf enters the tree',
              lambda P_: order(P_, A, r'(^|::)index_insert$', r'NodeVec::insert_leaf$'), floor=1)
    ctx.check('WIRE', 'add_leaf: placed at the next empty leaf',
              lambda P_: wire(P_, A, r'NodeVec::insert_leaf$', 1, r'NodeVec::next_empty_leaf\(self\.nodes'), floor=1)
    V = 'TreeValidator::validate'
    for step in ('validate_tree_hash', 'validate_parent_hashes', 'validate_no_trailing_blanks', 'validate_leaves', 'validate_unmerged'):
        ctx.check('MUST-PASS', 'validator: ' + step, lambda P_, step=step: must_pass(P_, V, r'::%s$' % step), floor=1)
    G = [
        ('validator: tree hash equals the expected hash', 'TreeValidator::validate_tree_hash', '!=', r'tree_hash\(', r'expected_tree_hash', 'TreeHashMismatch'),
        ('import: odd node count', 'TreeKemPublic::import_node_data', '==', r'Rem const 2', r'^const 0$', 'InvalidTreeIndex'),
        ('node index inside the tree', 'NodeVec::validate_index', '>=', r'^index$', r'next_power_of_two', 'InvalidNodeIndex'),
    ]
    for name, fq, rel, a, b, err in G:
        ctx.check('GUARD', name, lambda P_, fq=fq, rel=rel, a=a, b=b, err=err: guard(P_, fq, rel, a, b, err), floor=1)
