"""CODEC agreement prototype v2: per-success-path multisets of sub-codec operations."""
import sys, re, collections, itertools
from .facts import Body


def succs(term):
    return Body._succs(term)

TR = {'mls_rs_codec::MlsSize': 'size', 'mls_rs_codec::MlsEncode': 'enc', 'mls_rs_codec::MlsDecode': 'dec'}
OPN = {'mls_encoded_len': 'size', 'mls_encode': 'enc', 'mls_decode': 'dec'}
CAP = 20000


def norm_ty(s):
    s = re.sub(r"&('\w+ )?(mut )?", '', s)
    s = re.sub(r"'\w+,? ?", '', s)
    s = re.sub(r'\b(std|alloc)::boxed::Box<(.*)>$', r'\2', s)
    s = s.replace('mls_rs_codec::Vec<', 'Vec<').replace('std::vec::Vec<', 'Vec<')
    s = re.sub(r'^\[(.*)\]$', r'Vec<\1>', s)
    s = re.sub(r'[\w]+::', '', s)       # drop module paths
    s = s.replace('<>', '')
    return s.strip()


def _split_generics(s):
    out, depth, cur = [], 0, ''
    for ch in s:
        if ch == '<':
            depth += 1
        elif ch == '>':
            depth -= 1
        if ch == ',' and depth == 0:
            out.append(cur.strip())
            cur = ''
        else:
            cur += ch
    if cur.strip():
        out.append(cur.strip())
    return out


def _iter_elem(gargs):
    """element type of the iterator handed to iter::mls_encode / mls_encoded_len (its last type argument), or '?'"""
    if not gargs:
        return '?'
    if len(gargs) >= 2:
        # mls_encoded_len::<T, I>: the item type is explicit
        return norm_ty(gargs[0]['s'])
    t = norm_ty(gargs[0]['s'])
    m = re.match(r'^(\w+)<(.*)>$', t)
    if not m:
        return '?'
    parts = [p for p in _split_generics(m.group(2)) if not p.startswith("'")]
    if m.group(1) in ('Values', 'ValuesMut', 'IntoValues', 'Iter', 'IterMut', 'IntoIter', 'Copied', 'Cloned') and parts:
        # map iterators yield pairs unless they are Values
        if m.group(1) in ('Iter', 'IterMut', 'IntoIter') and len(parts) >= 2:
            return '(%s,%s)' % (parts[0], parts[1])
        return parts[-1]
    return '?'


def _coll_elem(t2):
    m = re.match(r'^(Vec|IntoIter|Iter)<(.*)>$', t2)
    if m:
        return _split_generics(m.group(2))[0]
    m = re.match(r'^(?:Hash|BTree|Small|Large)Map<(.*)>$', t2)
    if m:
        ps = _split_generics(m.group(1))
        if len(ps) >= 2:
            return '(%s,%s)' % (ps[0], ps[1])
    if t2 == 'str':
        return 'u8'
    return '?'


def op_of_callee(c):
    """descriptor of a codec operation performed by a call (or a fn item passed as value)."""
    path = c['path'] if 'path' in c else c['fn']
    name = path.split('::')[-1]
    gargs = c.get('gargs')
    if c.get('trait') and c['trait']['trait'] in TR and c['trait']['name'] in OPN:
        ty = norm_ty(gargs[0]['s']) if gargs else '?'
        return ('T', ty)
    m = re.match(r'mls_rs_codec::(byte_vec|iter)::(mls_encoded_len|mls_encode|mls_decode\w*)$', path)
    if m:
        if m.group(1) == 'byte_vec':
            return ('bytes', '')
        return ('iter', _iter_elem(gargs))
    if name in ('mls_decode', 'mls_encode', 'mls_encoded_len') and not c.get('trait'):
        seg = path.split('::')
        return ('T', norm_ty(seg[-2]))
    if name in ('encoded_byte_len', 'encode_from_bytes', 'decode_from_bytes'):
        return ('custom', 'CustomProposal')
    return None


def block_ops(F, fn, key):
    """per block: (mandatory ops, optional ops) -- optional = inside closures / fn items passed to higher-order calls."""
    out = []
    closure_ops = {}
    for ck in F.children.get(key, []):
        ops = collections.Counter()
        for paths in [path_multisets(F, ck, want_success=False)]:
            # closure: take union of its paths' ops as optional (max over paths)
            for pm in paths:
                for o, n in pm.items():
                    ops[o] = max(ops[o], n)
        closure_ops[ck] = ops
    # closures handed to `mls_decode_collection` decode the elements of that collection: their
    # operations belong to the collection operation itself
    clos_local = {}
    for b in fn['blocks']:
        for st in b['st']:
            rv = st['rv']
            if rv['k'] == 'agg' and rv['what'].startswith('closure:') and not st['lhs']['p']:
                clos_local[st['lhs']['l']] = F.lookup(rv['what'][8:])
    absorbed = set()
    for b in fn['blocks']:
        t = b['term']
        if t['k'] == 'call' and (t.get('callee') or {}).get('path', '').startswith('mls_rs_codec::iter::mls_decode_collection'):
            for a in t['args']:
                if a['k'] in ('copy', 'move') and not a['pl']['p'] and a['pl']['l'] in clos_local:
                    absorbed.add(clos_local[a['pl']['l']])
    absorbed_elem = {}
    for ck in absorbed:
        elems = [t for (m_, t) in closure_ops.get(ck, {}) if m_ == 'T']
        absorbed_elem[ck] = elems[0] if len(set(elems)) == 1 else ('(%s)' % ','.join(sorted(set(elems))) if elems else '?')
        closure_ops[ck] = collections.Counter()
    for b in fn['blocks']:
        man = collections.Counter()
        opt = collections.Counter()
        t = b['term']
        if t['k'] == 'call':
            c = t.get('callee')
            if c:
                o = op_of_callee(c)
                if o and o[0] == 'iter' and c.get('path', '').startswith('mls_rs_codec::iter::mls_decode_collection'):
                    el = '?'
                    for a in t['args']:
                        if a['k'] in ('copy', 'move') and not a['pl']['p'] and clos_local.get(a['pl']['l']) in absorbed_elem:
                            el = absorbed_elem[clos_local[a['pl']['l']]]
                    o = ('iter', el)
                if o:
                    man[o] += 1
            # fn items / closures passed as arguments
            for a in t['args']:
                if a['k'] == 'const' and 'fn' in a['v']:
                    o = op_of_callee({'path': a['v']['fn'], 'gargs': None, 'trait': None})
                    if o is None and re.search(r'Mls(Size|Encode|Decode)::mls_', a['v']['fn']):
                        o = ('T', '?')
                    if o:
                        opt[o] += 1
        for st in b['st']:
            rv = st['rv']
            if rv['k'] == 'agg' and rv['what'].startswith('closure:'):
                ck = F.lookup(rv['what'][8:])
                if ck in closure_ops:
                    opt += closure_ops[ck]
        out.append((man, opt))
    return out


_memo = {}


def path_multisets(F, key, want_success=True):
    mk = (key, want_success)
    if mk in _memo:
        return _memo[mk]
    fn = F.fns[key]
    B = fn['blocks']
    bops = block_ops(F, fn, key) if fn['kind'] != 'Closure' or True else None
    is_res = fn['ret'].startswith('std::result::Result<')
    err_blocks = set()
    if is_res and want_success:
        for bi, b in enumerate(B):
            t = b['term']
            if t['k'] == 'call' and t['dest']['l'] == 0 and (t.get('callee') or {}).get('path', '').endswith('FromResidual::from_residual'):
                err_blocks.add(bi)
            for st in b['st']:
                if st['lhs']['l'] == 0 and st['rv']['k'] == 'agg' and st['rv']['what'].endswith('Result::Err'):
                    err_blocks.add(bi)
    results = set()
    count = [0]
    # iterative DFS over acyclic paths (each block at most twice to tolerate one loop iteration)
    stack = [(0, collections.Counter(), collections.Counter(), {})]
    while stack:
        bi, man, opt, visits = stack.pop()
        count[0] += 1
        if count[0] > CAP:
            break
        if bi in err_blocks:
            continue
        v = dict(visits)
        v[bi] = v.get(bi, 0) + 1
        if v[bi] > 1:
            continue
        m2 = man + bops[bi][0]
        o2 = opt + bops[bi][1]
        t = B[bi]['term']
        if t['k'] == 'return':
            results.add((frozenset(m2.items()), frozenset(o2.items())))
            continue
        if t['k'] in ('unreachable', 'resume'):
            continue
        nxt = succs(t)
        if t['k'] in ('call', 'drop', 'assert'):
            nxt = nxt[:1]
        for s in nxt:
            stack.append((s, m2, o2, v))
    # expand optional ops: each optional op either happens or not (as a group per op)
    final = set()
    for (m, o) in results:
        m = collections.Counter(dict(m))
        o = list(dict(o).items())
        for mask in itertools.product([0, 1], repeat=min(len(o), 6)):
            c = collections.Counter(m)
            for bit, (op, n) in zip(mask, o):
                if bit:
                    c[op] += n
            final.add(frozenset(c.items()))
    res = [collections.Counter(dict(x)) for x in final]
    _memo[mk] = res
    return res


def canon(ms, kind):
    """normalise a path multiset for comparison across size/enc/dec: collection operations carry their element type when it
    is derivable (`?` otherwise)"""
    c = collections.Counter()
    for (m, t), n in ms.items():
        if m == 'T':
            t2 = t
            if t2.startswith('Vec<') or t2 == 'str' or t2.startswith('Iter<') or t2.startswith('IntoIter<') or \
                    re.match(r'(Hash|BTree|Small|Large)Map<', t2):
                c[('coll', _coll_elem(t2))] += n
                continue
            c[(m, t2)] += n
        elif m == 'iter':
            c[('coll', t or '?')] += n
        else:
            c[(m, t)] += n
    return frozenset(c.items())


def codec_types(F):
    """{(crate, self type): {'size'|'enc'|'dec': fn key}} for every type with a codec impl"""
    by_type = collections.defaultdict(dict)
    for k, r in F.fns.items():
        c = r['cont']
        if c and c['kind'] == 'impl' and c['trait'] in TR and c['name'] in OPN:
            by_type[(r['crate'], c['self'])][TR[c['trait']]] = k
    return by_type


def compare_type(F, impls):
    """returns (kinds, sets, mismatching kinds)"""
    kinds = sorted(impls)
    sets = {}
    for k in kinds:
        pms = path_multisets(F, impls[k], want_success=True)
        sets[k] = set(canon(pm, k) for pm in pms)
    # a collection whose element type could not be derived in one impl is a wildcard for that impl's siblings
    def wild(ss):
        return any(m == 'coll' and t == '?' for fs in ss for ((m, t), n) in fs)

    def blur(ss):
        out = set()
        for fs in ss:
            c = collections.Counter()
            for ((m, t), n) in fs:
                c[(m, '?' if m == 'coll' else t)] += n
            out.add(frozenset(c.items()))
        return out
    if any(wild(sets[k]) for k in kinds):
        cmp_sets = {k: blur(sets[k]) for k in kinds}
    else:
        cmp_sets = sets
    base = cmp_sets[kinds[0]]
    bad = [k for k in kinds[1:] if cmp_sets[k] != base]
    return kinds, sets, bad


# ------------------------------------------------------------------ field order agreement
from .origins import Origins, TRANSPARENT as _TRANSP  # noqa: E402


def _success_path(body):
    """blocks of the unique success path of a straight-line body (error exits of `?` pruned);
    None when the body branches between two paths that can both succeed"""
    path = []
    seen = set()
    bi = 0
    while True:
        if bi in seen:
            return None
        seen.add(bi)
        path.append(bi)
        t = body.term(bi)
        if t['k'] == 'return':
            return path
        nx = [s for s in body.succs(bi) if s not in body.err_blocks and body.can_succeed(s)]
        if len(nx) != 1:
            return None
        bi = nx[0]


def _origin_call(body, op, depth=0):
    """block of the call that produced the value of operand `op` (through moves, `?`, into/from)"""
    if depth > 12 or op['k'] not in ('copy', 'move'):
        return None
    l = op['pl']['l']
    ds = body.defs.get(l, [])
    if len(ds) != 1:
        return None
    d = ds[0]
    if d[0] == 'st':
        rv = d[1]
        if rv['k'] in ('use', 'cast') :
            return _origin_call(body, rv['o'], depth + 1)
        if rv['k'] == 'ref':
            return _origin_call(body, {'k': 'copy', 'pl': rv['pl']}, depth + 1)
        return None
    t = d[1]
    nm = (t.get('callee') or {}).get('path', '')
    if _TRANSP.search(nm) and t['args']:
        return _origin_call(body, t['args'][0], depth + 1)
    return d[2]


def field_sequence(F, key, kind):
    """ordered field names touched by the codec operations of a straight-line impl, or None"""
    fn = F.fns[key]
    body = F.body(fn)
    path = _success_path(body)
    if path is None:
        return None
    o = Origins(body)
    seq = []
    op_blocks = []
    for bi in path:
        t = body.term(bi)
        if t['k'] != 'call' or not t.get('callee'):
            continue
        if op_of_callee(t['callee']) is None:
            continue
        op_blocks.append(bi)
    if kind in ('size', 'enc'):
        for bi in op_blocks:
            t = body.term(bi)
            s = o.op_str(t['args'][0]) if t['args'] else ''
            m = re.search(r'\bself((?:\.\w+)+)', s)
            seq.append(m.group(1).lstrip('.').split('.')[0] if m else '?')
        return seq
    # decode: map each decode call to the field of the constructed value it ends up in
    owner = {}
    for bi, b in enumerate(body.B):
        for st in b['st']:
            rv = st['rv']
            if rv['k'] == 'agg' and rv['what'].startswith('adt:') and not rv['what'].endswith(('Result::Ok', 'Result::Err', 'Option::Some')):
                names = rv.get('names') or []
                for j, opnd in enumerate(rv['ops']):
                    cb = _origin_call(body, opnd)
                    if cb is not None and j < len(names):
                        owner.setdefault(cb, names[j])
    for bi in op_blocks:
        seq.append(owner.get(bi, '?'))
    return seq
