"""GUARD extraction: comparisons whose failing side cannot reach a success return,
normalised to "fails when lhs REL rhs => error variants"."""
import re
from .facts import callee_path, callee_name
from .origins import Origins

CMP = {'Eq': '==', 'Ne': '!=', 'Lt': '<', 'Le': '<=', 'Gt': '>', 'Ge': '>='}
NEG = {'==': '!=', '!=': '==', '<': '>=', '>=': '<', '>': '<=', '<=': '>'}
SWAP = {'==': '==', '!=': '!=', '<': '>', '>': '<', '<=': '>=', '>=': '<='}


class Guard:
    __slots__ = ('fn', 'rel', 'lhs', 'rhs', 'errs', 'ln', 'block', 'idiom', 'fail_block', 'raw', 'pass_block')

    def __init__(self, fn, rel, lhs, rhs, errs, ln, block, idiom, fail_block=None):
        self.fn, self.rel, self.lhs, self.rhs, self.errs, self.ln, self.block, self.idiom = fn, rel, lhs, rhs, errs, ln, block, idiom
        self.fail_block = fail_block
        self.raw = None
        self.pass_block = None

    def text(self):
        if self.rel == 'truth':
            return 'fails when %s' % self.lhs
        if self.rel == 'not':
            return 'fails when not %s' % self.lhs
        return 'fails when %s %s %s' % (self.lhs, self.rel, self.rhs)

    def __repr__(self):
        return '%s => %s @%s' % (self.text(), ','.join(sorted(self.errs)), self.ln)

    def matches(self, rel, a_rx, b_rx=None):
        """does this guard fail when `A rel B` with A~a_rx, B~b_rx (operand order / mirrored relation tolerated)"""
        if b_rx is None:
            if self.rel == rel and re.search(a_rx, self.lhs) is not None:
                return True
            # `x.is_none()` is `!x.is_some()`, `r.is_err()` is `!r.is_ok()`: a rule written for one spelling accepts the other
            if self.rel in ('truth', 'not') and rel in ('truth', 'not') and self.rel != rel:
                for a_, b_ in (('Option::is_some(', 'Option::is_none('), ('Option::is_none(', 'Option::is_some('),
                               ('Result::is_ok(', 'Result::is_err('), ('Result::is_err(', 'Result::is_ok(')):
                    if self.lhs.startswith(a_) and re.search(a_rx, b_ + self.lhs[len(a_):]) is not None:
                        return True
            return False
        if self.rel == rel and re.search(a_rx, self.lhs) and re.search(b_rx, self.rhs):
            return True
        if self.rel in SWAP and SWAP[self.rel] == rel and re.search(a_rx, self.rhs) and re.search(b_rx, self.lhs):
            return True
        return False


class GuardExtractor:
    def __init__(self, body, resolve_upvars=False):
        self.b = body
        self.o = Origins(body, resolve_upvars=resolve_upvars)
        self._succ_memo = {}

    # ---------------- error descriptions
    def err_variants_at(self, bi):
        """error variants syntactically visible at an error-origin block"""
        b = self.b.B[bi]
        out = set()
        t = b['term']
        if t['k'] == 'call' and callee_path(t).endswith('FromResidual::from_residual') and t['args']:
            s = self.o.op_str(t['args'][0])
            out |= set(re.findall(r'(?:MlsError|Error)::(\w+)', s))
        for st in b['st']:
            if not st['lhs']['p'] and st['rv']['k'] == 'agg' and st['rv']['what'].endswith('Result::Err'):
                s = self.o.op_str(st['rv']['ops'][0]) if st['rv']['ops'] else ''
                out |= set(re.findall(r'(?:MlsError|Error)::(\w+)', s))
        return out or {'?'}

    def can_succeed(self, bi):
        if bi not in self._succ_memo:
            self._succ_memo[bi] = self.b.can_succeed(bi)
        return self._succ_memo[bi]

    def errs_from(self, bi):
        errs = self.b.err_blocks
        seen = set()
        st = [bi]
        out = set()
        while st:
            x = st.pop()
            if x in seen:
                continue
            seen.add(x)
            if x in errs:
                out |= self.err_variants_at(x)
                continue
            st.extend(self.b.succs(x))
        return out

    # ---------------- conditions
    def _continue_after(self, bi):
        """for `cond.then_some(x).ok_or(E)?`: the block reached when the `?` continues (first two-way switch on a ControlFlow
        discriminant downstream of block bi, its `Continue` = 0 target)"""
        seen, cur = set(), bi
        for _ in range(12):
            if cur in seen:
                return None
            seen.add(cur)
            t = self.b.B[cur]['term']
            if t['k'] == 'switch':
                for v, tgt in t['ts']:
                    if str(v) == '0':
                        return tgt
                return None
            nx = self.b.succs(cur)
            if t['k'] == 'call':
                nx = [t['t']] if t['t'] is not None and t['t'] >= 0 else []
            if len(nx) != 1:
                return None
            cur = nx[0]
        return None

    def _variant_flag(self, l, depth=0):
        """`matches!(X, Some(_))` / `matches!(X, None)` materialise the pattern test as a bool: `_l = true` in the block a two-way
        discriminant switch on X (Option / Result) enters for one variant, `_l = false` on the other side."""
        ds = self.b.defs.get(l, [])
        tb = [d[2] for d in ds if d[0] == 'st' and d[1]['k'] == 'use' and d[1]['o']['k'] == 'const' and str(d[1]['o']['v'].get('v')) == '1']
        fb = [d[2] for d in ds if d[0] == 'st' and d[1]['k'] == 'use' and d[1]['o']['k'] == 'const' and str(d[1]['o']['v'].get('v')) == '0']
        if len(tb) != 1 or len(tb) + len(fb) != len(ds) or not fb:
            return None
        T = tb[0]
        for bi in self.b.preds(T):
            t = self.b.B[bi]['term']
            if t['k'] != 'switch' or t['d']['k'] not in ('copy', 'move') or t['d']['pl']['p']:
                continue
            # `matches!(x, Pat(r) if r.a != b)`: the block that sets the flag is entered from a two-way branch on a comparison --
            # the innermost test of the pattern stands for the flag (the outer variant tests only narrow it)
            cl = t['d']['pl']['l']
            if self.b.fn['locals'][cl]['ty'] == 'bool' and len(t['ts']) == 1 and len(self.b.preds(T)) == 1 and cl != l and depth < 4:
                v, tgt = t['ts'][0]
                false_t, true_t = (tgt, t['o']) if v == '0' else (t['o'], tgt)
                rel = self.cond_of_local(cl, depth + 1)
                if T == true_t:
                    return rel
                if T == false_t:
                    if rel[0] in NEG:
                        return (NEG[rel[0]], rel[1], rel[2])
                    return ('not' if rel[0] == 'truth' else 'truth', rel[1], '')
            for d in self.b.defs.get(t['d']['pl']['l'], []):
                if d[0] != 'st' or d[1]['k'] != 'discr':
                    continue
                m = re.match(r'^&*(?:mut )?(?:std|core)::(option::Option|result::Result)<', d[1].get('ty', ''))
                if not m:
                    continue
                vals = [str(v) for v, tgt in t['ts'] if tgt == T]
                if not vals and t['o'] == T and len(t['ts']) == 1:
                    vals = ['1' if str(t['ts'][0][0]) == '0' else '0']
                if len(vals) != 1 or vals[0] not in ('0', '1'):
                    continue
                is_opt = 'Option' in m.group(1)
                x = self.o.op_str({'k': 'copy', 'pl': d[1]['pl']})
                a = ('Option::is_some(%s)' if is_opt else 'Result::is_ok(%s)') % x
                positive = (vals[0] == '1') == is_opt
                return ('truth' if positive else 'not', a, '')
        return None

    def cond_of_local(self, l, depth=0):
        ds = self.b.defs.get(l, [])
        if len(ds) > 1:
            vf = self._variant_flag(l, depth)
            if vf:
                return vf
        if len(ds) != 1 or depth > 6:
            return ('truth', self.o.local_str(l), '')
        d = ds[0]
        if d[0] == 'st':
            rv = d[1]
            if rv['k'] == 'bin' and rv['op'] in CMP:
                return (CMP[rv['op']], self.o.op_str(rv['a']), self.o.op_str(rv['b']))
            if rv['k'] == 'un' and rv['op'] == 'Not' and rv['a']['k'] in ('copy', 'move') and not rv['a']['pl']['p']:
                r = self.cond_of_local(rv['a']['pl']['l'], depth + 1)
                if r[0] in NEG:
                    return (NEG[r[0]], r[1], r[2])
                if r[0] == 'truth':
                    return ('not', r[1], '')
                if r[0] == 'not':
                    return ('truth', r[1], '')
            if rv['k'] == 'use' and rv['o']['k'] in ('copy', 'move') and not rv['o']['pl']['p']:
                return self.cond_of_local(rv['o']['pl']['l'], depth + 1)
            return ('truth', self.o.def_str(d, 0), '')
        t = d[1]
        name = callee_path(t)
        if name.endswith('PartialEq::eq') or name.endswith('PartialEq::ne'):
            rel = '==' if name.endswith('::eq') else '!='
            return (rel, self.o.op_str(t['args'][0]), self.o.op_str(t['args'][1]))
        m = re.search(r'PartialOrd::(lt|le|gt|ge)$', name)
        if m:
            rel = {'lt': '<', 'le': '<=', 'gt': '>', 'ge': '>='}[m.group(1)]
            return (rel, self.o.op_str(t['args'][0]), self.o.op_str(t['args'][1]))
        if re.search(r'::not$', name) and t['args'] and t['args'][0]['k'] in ('copy', 'move') and not t['args'][0]['pl']['p']:
            r = self.cond_of_local(t['args'][0]['pl']['l'], depth + 1)
            if r[0] in NEG:
                return (NEG[r[0]], r[1], r[2])
        return ('truth', self.o.def_str(d, 0), '')

    def raw_of_local(self, l, depth=0):
        """raw operands (a, b) of the comparison that defines bool local l, or None"""
        ds = self.b.defs.get(l, [])
        if len(ds) != 1 or depth > 6:
            return None
        d = ds[0]
        if d[0] == 'st':
            rv = d[1]
            if rv['k'] == 'bin' and rv['op'] in CMP:
                return (rv['a'], rv['b'])
            if rv['k'] in ('un', 'use'):
                o = rv.get('a') or rv.get('o')
                if o and o['k'] in ('copy', 'move') and not o['pl']['p']:
                    return self.raw_of_local(o['pl']['l'], depth + 1)
            return None
        t = d[1]
        name = callee_path(t)
        if re.search(r'PartialEq::(eq|ne)$|PartialOrd::(lt|le|gt|ge)$', name):
            return (t['args'][0], t['args'][1])
        if re.search(r'::not$', name) and t['args'] and t['args'][0]['k'] in ('copy', 'move') and not t['args'][0]['pl']['p']:
            return self.raw_of_local(t['args'][0]['pl']['l'], depth + 1)
        return None

    def guards(self):
        out = []
        B = self.b.B
        fnq = self.b.fn['qual']
        for bi, b in enumerate(B):
            if b.get('cu'):
                continue
            t = b['term']
            # idiom 1: branch on a bool whose two sides differ in "can still succeed"
            if t['k'] == 'switch' and t['d']['k'] in ('copy', 'move') and not t['d']['pl']['p']:
                l = t['d']['pl']['l']
                ty = self.b.fn['locals'][l]['ty']
                if ty == 'bool' and len(t['ts']) == 1:
                    v, tgt = t['ts'][0]
                    other = t['o']
                    false_t, true_t = (tgt, other) if v == '0' else (other, tgt)
                    sf, st_ = self.can_succeed(false_t), self.can_succeed(true_t)
                    if sf != st_:
                        rel = self.cond_of_local(l)
                        failing_when_true = not st_
                        fb = true_t if failing_when_true else false_t
                        errs = self.errs_from(fb)
                        if rel[0] in NEG:
                            r = rel[0] if failing_when_true else NEG[rel[0]]
                            out.append(Guard(fnq, r, rel[1], rel[2], errs, b['ln'], bi, 'branch', fb))
                            out[-1].raw = self.raw_of_local(l)
                        else:
                            pos = (rel[0] == 'truth') == failing_when_true
                            out.append(Guard(fnq, 'truth' if pos else 'not', rel[1], '', errs, b['ln'], bi, 'branch', fb))
            # idiom 3: two-way test of the variant of an Option / Result (`if let Some(_) = x`, `matches!(x, None)`, `let .. else`,
            # `match`) whose sides differ in "can still succeed": the same guard as `x.is_some()` / `x.is_ok()`
            if t['k'] == 'switch' and t['d']['k'] in ('copy', 'move') and not t['d']['pl']['p']:
                l = t['d']['pl']['l']
                for d in self.b.defs.get(l, []):
                    if d[0] != 'st' or d[1]['k'] != 'discr':
                        continue
                    m = re.match(r'^&*(?:mut )?(?:std|core)::(option::Option|result::Result)<', d[1].get('ty', ''))
                    if not m:
                        continue
                    tg = {}
                    for v, tgt in t['ts']:
                        tg[str(v)] = tgt
                    for v in ('0', '1'):
                        if v not in tg and len(t['ts']) == 1:
                            tg[v] = t['o']
                    if '0' not in tg or '1' not in tg:
                        continue
                    is_opt = 'Option' in m.group(1)
                    pos_t, neg_t = (tg['1'], tg['0']) if is_opt else (tg['0'], tg['1'])
                    sp, sn = self.can_succeed(pos_t), self.can_succeed(neg_t)
                    if sp == sn:
                        continue
                    x = self.o.op_str({'k': 'copy', 'pl': d[1]['pl']})
                    a = ('Option::is_some(%s)' if is_opt else 'Result::is_ok(%s)') % x
                    fb = pos_t if not sp else neg_t
                    out.append(Guard(fnq, 'truth' if not sp else 'not', a, '', self.errs_from(fb), b['ln'], bi, 'variant', fb))
            # idiom 2: cond.then_some(x).ok_or(E)? / cond.then(..).ok_or(E)
            if t['k'] == 'call' and re.search(r'bool::then_some$|bool::then$', _nogen(callee_path(t))):
                a0 = t['args'][0]
                if a0['k'] in ('copy', 'move') and not a0['pl']['p']:
                    rel = self.cond_of_local(a0['pl']['l'])
                    d = t['dest']['l']
                    err = None
                    for b2 in B:
                        t2 = b2['term']
                        if t2['k'] == 'call' and re.search(r'Option::<T>::ok_or(_else)?$', callee_path(t2)):
                            a = t2['args'][0]
                            if a['k'] in ('copy', 'move') and a['pl']['l'] == d:
                                err = set(re.findall(r'(?:MlsError|Error)::(\w+)', self.o.op_str(t2['args'][1]))) or {'?'}
                    if err:
                        if rel[0] in NEG:
                            out.append(Guard(fnq, NEG[rel[0]], rel[1], rel[2], err, b['ln'], bi, 'then_some'))
                            out[-1].raw = self.raw_of_local(a0['pl']['l'])
                        else:
                            out.append(Guard(fnq, 'not' if rel[0] == 'truth' else 'truth', rel[1], '', err, b['ln'], bi, 'then_some'))
                        out[-1].pass_block = self._continue_after(bi)
        return out


def _nogen(s):
    return re.sub(r'::<[^>]*>', '', s)


def guards_of(prog, fn):
    return GuardExtractor(prog.body(fn)).guards()
