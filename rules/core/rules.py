"""Generic rule kinds over the MIR facts. Each function returns an engine.Res."""
import re
import collections

from .engine import Res
from .facts import callee_name, callee_path, callee_resolved, AnchorMissing, _last, _strip_generics, is_result_ty, module_private
from .origins import Origins
from .guards import GuardExtractor, guards_of

ADAPTERS = re.compile(r'(Result::<T, E>::(map_err|map|and_then|or_else|inspect_err|inspect)$|::into$|::from$|'
                      r'IntoFuture::into_future$|Option::<T>::(ok_or|ok_or_else|transpose)$|Result::<T, E>::transpose$|'
                      r'Option::<Result<T, E>>::transpose$|Result::<Option<T>, E>::transpose$)')
PANIC_ON_ERR = re.compile(r'Result::<T, E>::(unwrap|expect)$')


def same_adt(o, apath):
    """ADT paths printed from another crate use the visible re-export path: compare crate + type name"""
    if o == apath:
        return True
    return bool(o) and o.split('::')[0] == apath.split('::')[0] and o.split('::')[-1] == apath.split('::')[-1]


def _adt_of_owner(P, o):
    a = P.adts.get(o)
    if a is not None:
        return a
    for p_, a_ in P.adts.items():
        if same_adt(o, p_):
            return a_
    return None


def owner_qual(P, fn):
    """qual of the enclosing named function (closures are attributed to their creator)"""
    q = fn['qual']
    return re.sub(r'(::\{closure#\d+\})+$', '', q)


def call_matches(t, rx):
    return bool(rx.search(callee_name(t)) or rx.search(_nogen(callee_resolved(t))) or rx.search(_nogen(callee_path(t))))


def _nogen(s):
    return re.sub(r'::<[^<>]*(<[^<>]*>[^<>]*)*>', '', s)


# ------------------------------------------------------------------------------ WHO-CALLS
def who_calls(P, callee_rx, allowed, crates=None):
    """every call site of a callee matching `callee_rx` lies in a function whose qual matches one of `allowed`"""
    rx = re.compile(callee_rx)
    allow = [re.compile(a) for a in allowed]
    r = Res()
    for fn in P.fns.values():
        if crates and fn['crate'] not in crates:
            continue
        for bi, b in enumerate(fn['blocks']):
            if b.get('cu'):
                continue
            t = b['term']
            hit = False
            if t['k'] == 'call' and call_matches(t, rx):
                hit = True
            if t['k'] == 'call' and not hit:
                # fn items passed as values (`.map(T::f)`)
                for a in t['args']:
                    if a['k'] == 'const' and 'fn' in a['v'] and rx.search(_nogen(a['v']['fn'])):
                        hit = True
            if not hit:
                continue
            oq = owner_qual(P, fn)
            r.site('%s @%s' % (oq, b['ln']))
            if not any(a.search(oq) for a in allow):
                r.bad('caller=' + oq, 'call to %s from `%s`, which is not an allowed caller' % (callee_name(t) or callee_path(t), oq),
                      where=[b['ln']])
    return r


# ------------------------------------------------------------------------------ WHO-WRITES
def field_writes(P, adt_short, field, include_borrows=True, include_ctor=True):
    """all sites that assign / mutably borrow / construct `adt.field`: [(fn, ln, how)]"""
    try:
        adt = P.adt(adt_short)
    except AnchorMissing:
        raise
    if field is not None and not any(f['name'] == field for v in adt['variants'] for f in v['fields']):
        raise AnchorMissing('field %s.%s does not exist' % (adt_short, field))
    apath = adt['path']
    out = []

    def touches(pl, last_only=False):
        ps = [e for e in pl['p'] if e.startswith('.')]
        os_ = pl.get('o') or []
        hits = []
        for i, (e, o) in enumerate(zip(ps, os_)):
            if same_adt(o, apath) and (field is None or e == '.' + field):
                hits.append(i)
        return hits, len(ps)

    for fn in P.fns.values():
        for bi, b in enumerate(fn['blocks']):
            if b.get('cu'):
                continue
            for st in b['st']:
                hits, n = touches(st['lhs'])
                if hits:
                    out.append((fn, st['ln'], 'assign'))
                rv = st['rv']
                if include_borrows and rv['k'] in ('ref', 'rawptr') and rv.get('mut', True):
                    hits, n = touches(rv['pl'])
                    if hits:
                        out.append((fn, st['ln'], 'borrow-mut'))
                if include_ctor and rv['k'] == 'agg' and rv['what'].startswith('adt:' + apath + '::'):
                    if field is None or field in (rv.get('names') or []):
                        out.append((fn, st['ln'], 'construct'))
            t = b['term']
            if t['k'] == 'call':
                hits, n = touches(t['dest'])
                if hits:
                    out.append((fn, b['ln'], 'assign-call-result'))
            if t['k'] == 'drop':
                pass
    return out


def who_writes(P, adt_short, field, allowed, kinds=('assign', 'borrow-mut', 'construct', 'assign-call-result')):
    allow = [re.compile(a) for a in allowed]
    r = Res()
    for fn, ln, how in field_writes(P, adt_short, field):
        if how not in kinds:
            continue
        oq = owner_qual(P, fn)
        r.site('%s @%s (%s)' % (oq, ln, how))
        if not any(a.search(oq) for a in allow):
            r.bad('writer=%s|%s' % (oq, how), '`%s` writes %s.%s (%s) but is not an allowed writer' % (oq, adt_short, field, how), where=[ln])
    return r


# ------------------------------------------------------------------------------ MUST-PASS
def _flow_locals(body, start_local):
    """locals that carry the (Result) value of `start_local` forward through moves and adaptors;
    also returns whether it reaches the return place and the Try::branch / match sites."""
    B = body.B
    carry = {start_local}
    changed = True
    while changed:
        changed = False
        for bi, b in enumerate(B):
            if b.get('cu'):
                continue
            for st in b['st']:
                rv = st['rv']
                if rv['k'] == 'use' and rv['o']['k'] in ('copy', 'move') and not rv['o']['pl']['p'] and rv['o']['pl']['l'] in carry:
                    if not st['lhs']['p'] and st['lhs']['l'] not in carry:
                        carry.add(st['lhs']['l'])
                        changed = True
            t = b['term']
            if t['k'] == 'call' and t['args'] and ADAPTERS.search(callee_path(t)):
                a0 = t['args'][0]
                if a0['k'] in ('copy', 'move') and not a0['pl']['p'] and a0['pl']['l'] in carry:
                    if not t['dest']['p'] and t['dest']['l'] not in carry:
                        carry.add(t['dest']['l'])
                        changed = True
    return carry


def checked_pass_blocks(body, call_bi):
    """blocks that are reached only when the call in `call_bi` returned Ok (its result is checked
    by `?`, a match, unwrap) or in which its result becomes the function's own result.
    Returns (set of blocks, reason) -- empty set means the result is dropped."""
    B = body.B
    t = B[call_bi]['term']
    if t['dest']['p']:
        return set(), 'result stored into a place'
    L = t['dest']['l']
    lty = body.fn['locals'][L]['ty']
    if not is_result_ty(lty):
        return ({t['t']} if t['t'] >= 0 else set()), 'non-Result callee'
    carry = _flow_locals(body, L)
    passes = set()
    for bi, b in enumerate(B):
        if b.get('cu'):
            continue
        tt = b['term']
        # `?`
        if tt['k'] == 'call' and callee_path(tt).endswith('Try::branch') and tt['args']:
            a0 = tt['args'][0]
            if a0['k'] in ('copy', 'move') and not a0['pl']['p'] and a0['pl']['l'] in carry and not tt['dest']['p']:
                d = tt['dest']['l']
                passes |= _discr_ok_targets(body, d)
        if tt['k'] == 'call' and PANIC_ON_ERR.search(callee_path(tt)) and tt['args']:
            a0 = tt['args'][0]
            if a0['k'] in ('copy', 'move') and not a0['pl']['p'] and a0['pl']['l'] in carry and tt['t'] >= 0:
                passes.add(tt['t'])
        # tail: the call's result is the function's result
        if tt['k'] == 'call' and bi == call_bi and L == 0:
            passes.add(tt['t'])
        for st in b['st']:
            rv = st['rv']
            if st['lhs']['l'] == 0 and not st['lhs']['p'] and rv['k'] == 'use' and rv['o']['k'] in ('copy', 'move') \
                    and not rv['o']['pl']['p'] and rv['o']['pl']['l'] in carry:
                passes.add(bi)
        # adaptor writing straight into _0
        if tt['k'] == 'call' and tt['dest']['l'] == 0 and not tt['dest']['p'] and tt['args'] and ADAPTERS.search(callee_path(tt)):
            a0 = tt['args'][0]
            if a0['k'] in ('copy', 'move') and not a0['pl']['p'] and a0['pl']['l'] in carry and tt['t'] >= 0:
                passes.add(tt['t'])
    # direct match on the result
    for l in carry:
        passes |= _discr_ok_targets(body, l)
    if L == 0 or 0 in carry:
        if t['t'] >= 0:
            passes.add(t['t'])
    return passes, ('checked' if passes else 'result dropped')


def _discr_ok_targets(body, local):
    """targets of `switchInt(discriminant(local))` for value 0 (Ok / Continue), provided the other
    side (Err / Break) cannot reach a success return"""
    out = set()
    for bi, b in enumerate(body.B):
        if b.get('cu'):
            continue
        dl = None
        for st in b['st']:
            if st['rv']['k'] == 'discr' and not st['rv']['pl']['p'] and st['rv']['pl']['l'] == local and not st['lhs']['p']:
                dl = st['lhs']['l']
        t = b['term']
        if dl is not None and t['k'] == 'switch' and t['d']['k'] in ('copy', 'move') and t['d']['pl']['l'] == dl:
            ok_t = [tg for v, tg in t['ts'] if v == '0']
            err_t = [tg for v, tg in t['ts'] if v != '0']
            if not err_t:
                err_t = [t['o']]
            if ok_t and not any(body.can_succeed(e) for e in err_t):
                out.add(ok_t[0])
    return out


def must_pass(P, fn_qual, callee_rx, before_rx=None, start_after_rx=None, require_checked=True, _depth=0):
    """every path from the entry of F to a success return (or to a call matching `before_rx`)
    passes through a call matching `callee_rx` whose failure cannot reach a success return."""
    fn = P.fn(fn_qual)
    body = P.body(fn)
    rx = re.compile(callee_rx)
    r = Res()
    barriers = set()
    for bi, t in body.calls(lambda t: call_matches(t, rx)):
        passes, why = checked_pass_blocks(body, bi)
        r.site('%s @%s (%s)' % (fn['qual'], body.ln(bi), why))
        if not passes:
            if require_checked:
                r.bad('result-dropped', 'in `%s` the result of %s is not checked (no `?`, match or return consumes it), '
                      'so its failure does not stop processing' % (fn['qual'], callee_name(t)), where=[body.ln(bi)])
            else:
                barriers.add(t['t'])
        barriers |= passes
    if not r.sites and not before_rx and _depth < 2:
        # the call may have moved into a helper that F calls unconditionally
        for h in unconditional_local_callees(P, fn):
            hr = must_pass(P, h['key'], callee_rx, None, None, require_checked, _depth + 1)
            if hr.sites and not hr.violations:
                hr.sites = ['%s -> helper %s' % (fn['qual'], x) for x in hr.sites]
                return hr
    if not r.sites:
        r.bad('call-missing', '`%s` no longer calls %s' % (fn['qual'], callee_rx))
        return r
    avoid = barriers | set(body.err_blocks)
    if before_rx:
        brx = re.compile(before_rx)
        targets = [bi for bi, t in body.calls(lambda t: call_matches(t, brx))]
        if not targets:
            raise AnchorMissing('`%s` has no call matching %s' % (fn_qual, before_rx))
        reach = body.reach([0], barriers)
        bad = [bi for bi in targets if bi in reach]
        if bad:
            r.bad('bypass', 'in `%s` a path reaches %s without a successful %s before it'
                  % (fn['qual'], before_rx, callee_rx), where=[body.ln(b) for b in bad[:3]])
    else:
        reach = body.reach([0], avoid)
        rets = [bi for bi in reach if body.term(bi)['k'] == 'return']
        if rets:
            wit = _witness_path(body, 0, set(rets), avoid)
            r.bad('bypass', 'in `%s` a path reaches a success return without a successful %s'
                  % (fn['qual'], callee_rx), where=[body.ln(b) for b in wit[-6:]],
                  witness={'path_blocks': wit, 'lines': [body.ln(b) for b in wit]})
    return r


def _witness_path(body, start, goals, avoid):
    prev = {start: None}
    q = collections.deque([start])
    while q:
        x = q.popleft()
        if x in goals:
            path = []
            while x is not None:
                path.append(x)
                x = prev[x]
            return list(reversed(path))
        for s in body.succs(x):
            if s not in prev and s not in avoid:
                prev[s] = x
                q.append(s)
    return []


def unconditional_local_callees(P, fn):
    """bodies of workspace functions that `fn` calls on every success path with a checked result (helper functions)"""
    body = P.body(fn)
    out = []
    later = []
    errs = set(body.err_blocks)
    by = collections.defaultdict(list)
    for bi, t in body.calls():
        c = t.get('callee') or {}
        res = c.get('res') or {}
        k = P.lookup(res.get('path') or c.get('path', ''), fn['crate'])
        if k is None and c.get('trait') and c.get('gargs'):
            # default method of the same trait called on Self
            k = P.defaults.get((c['trait']['trait'], c['trait']['name']))
        if k and k != fn['key']:
            by[k].append(bi)
    for k, blocks in by.items():
        barriers = set()
        for b in blocks:
            passes, why = checked_pass_blocks(body, b)
            barriers |= passes
        if not barriers:
            continue
        reach = body.reach([0], barriers | errs)
        if not any(body.term(x)['k'] == 'return' for x in reach):
            out.append(P.fns[k])
        elif module_private(P.fns[k]):
            later.append(P.fns[k])
    # module-private helpers whose result is checked wherever they are called (a block moved out of a loop or a branch into a
    # helper of its own): the guard still runs exactly where it ran before
    return out + later


# ------------------------------------------------------------------------------ ORDER
def order(P, fn_qual, first_rx, then_rx, all_of_then=True):
    """every path from entry to a call matching `then_rx` passes a call matching `first_rx`"""
    fn = P.fn(fn_qual)
    body = P.body(fn)
    frx, trx = re.compile(first_rx), re.compile(then_rx)
    firsts = [bi for bi, t in body.calls(lambda t: call_matches(t, frx))]
    thens = [bi for bi, t in body.calls(lambda t: call_matches(t, trx))]
    r = Res()
    if not firsts:
        raise AnchorMissing('`%s` has no call matching %s' % (fn_qual, first_rx))
    if not thens:
        raise AnchorMissing('`%s` has no call matching %s' % (fn_qual, then_rx))
    # a `first` call block passes when it returns: barrier = its successor
    barriers = set(body.term(b)['t'] for b in firsts if body.term(b)['t'] >= 0)
    reach = body.reach([0], barriers)
    for b in thens:
        r.site('%s @%s' % (fn['qual'], body.ln(b)))
        if b in reach and b not in firsts:
            r.bad('unordered', 'in `%s` %s can be reached before %s' % (fn['qual'], then_rx, first_rx), where=[body.ln(b)])
    return r


# ------------------------------------------------------------------------------ GUARD
def guard(P, fn_qual, rel, a_rx, b_rx=None, err=None, dominates_rx=None, _depth=0, optional=False):
    """F contains a comparison that fails when `A rel B` and whose failing side cannot reach a success return"""
    fn = P.fn(fn_qual)
    body = P.body(fn)
    gs = GuardExtractor(body).guards()
    r = Res()
    found = [g for g in gs if g.matches(rel, a_rx, b_rx)]
    for g in found:
        r.site('%s: %s @%s' % (fn['qual'], g.text()[:160], g.ln))
    if not found and not dominates_rx and _depth < 2:
        # the comparison may have moved into a helper that F calls unconditionally (its failure propagates through `?`)
        for h in unconditional_local_callees(P, fn):
            hr = guard(P, h['key'], rel, a_rx, b_rx, err, None, _depth + 1)
            if hr.sites and not hr.violations:
                hr.sites = ['%s -> helper %s' % (fn['qual'], x) for x in hr.sites]
                return hr
    if not found and b_rx is not None and not dominates_rx:
        # `opt.is_some_and(|x| a != x)` / `iter.any(|x| a != x)`: the comparison sits in a closure of F and F fails on the closure's
        # verdict. The guard is the outer one (its error), the relation is the closure's (either polarity: `all(==)` and `any(!=)`).
        # an `Option::is_some_and / map_or / is_none_or` form skips the comparison when the option is empty: that is the same guard
        # only where the reviewed guard was itself conditional on a present value (`optional=True` at the rule instance)
        outer = [g for g in gs if g.rel in ('truth', 'not') and '{closure' in g.lhs
                 and (optional or not re.match(r'^Option::(is_some_and|is_none_or|map_or|map_or_else|map|and_then|filter)\(', g.lhs))]
        if outer:
            from .guards import CMP
            for k in P.closures_of(fn['key']):
                cb = P.body(P.fns[k])
                gx2 = GuardExtractor(cb, resolve_upvars=True)
                for d in cb.defs.get(0, []):
                    rl = None
                    if d[0] == 'st' and d[1]['k'] == 'bin' and d[1]['op'] in CMP:
                        rl = (CMP[d[1]['op']], gx2.o.op_str(d[1]['a']), gx2.o.op_str(d[1]['b']))
                    elif d[0] == 'st' and d[1]['k'] == 'use' and d[1]['o']['k'] in ('copy', 'move') and not d[1]['o']['pl']['p']:
                        rl = gx2.cond_of_local(d[1]['o']['pl']['l'])
                    elif d[0] == 'call':
                        nm = callee_path(d[1])
                        m_ = re.search(r'PartialEq::(eq|ne)$|PartialOrd::(lt|le|gt|ge)$', nm)
                        if m_:
                            r0 = {'eq': '==', 'ne': '!=', 'lt': '<', 'le': '<=', 'gt': '>', 'ge': '>='}[nm.rsplit('::', 1)[1]]
                            rl = (r0, gx2.o.op_str(d[1]['args'][0]), gx2.o.op_str(d[1]['args'][1]))
                    if not rl or rl[0] not in ('==', '!=', '<', '<=', '>', '>='):
                        continue
                    from .guards import NEG, SWAP
                    cname = '{closure:%s}' % k.split('::')[-1]
                    for g in outer:
                        if cname not in g.lhs:
                            continue
                        whole = g.lhs + ' ' + rl[1] + ' ' + rl[2]
                        for rel_ in (rl[0], NEG[rl[0]]):
                            ok1 = rel_ == rel and re.search(a_rx, rl[1] + ' ' + g.lhs) and re.search(b_rx, rl[2] + ' ' + g.lhs)
                            ok2 = SWAP.get(rel_) == rel and re.search(a_rx, rl[2] + ' ' + g.lhs) and re.search(b_rx, rl[1] + ' ' + g.lhs)
                            if ok1 or ok2:
                                if err and err not in g.errs:
                                    continue
                                r.site('%s: %s with %s %s %s in %s @%s' % (fn['qual'], g.text()[:90], rl[1][:40], rel_, rl[2][:40], cname, g.ln))
                                return r
    if not found:
        near = [g for g in gs if re.search(a_rx, g.lhs + ' ' + g.rhs)]
        r.bad('guard-missing', '`%s` has no guard that fails when [%s] %s [%s]; guards on that operand now: %s'
              % (fn['qual'], a_rx, rel, b_rx or '', '; '.join(g.text()[:200] for g in near[:3]) or 'none'),
              where=[g.ln for g in near[:3]] or [fn['loc']])
        return r
    if err:
        ok = [g for g in found if err in g.errs]
        if not ok:
            r.bad('guard-error', '`%s`: guard [%s %s %s] no longer yields %s (yields %s)' %
                  (fn['qual'], a_rx, rel, b_rx or '', err, ','.join(sorted(found[0].errs))), where=[found[0].ln])
    if dominates_rx:
        drx = re.compile(dominates_rx)
        tg = [bi for bi, t in body.calls(lambda t: call_matches(t, drx))]
        if not tg:
            raise AnchorMissing('`%s` has no call matching %s' % (fn_qual, dominates_rx))
        for g in found:
            for b in tg:
                if not body.dominates(g.block, b):
                    r.bad('guard-not-dominating', '`%s`: guard [%s] does not dominate the call to %s'
                          % (fn['qual'], g.text()[:120], dominates_rx), where=[g.ln, body.ln(b)])
    return r


# ------------------------------------------------------------------------------ WIRE
def wire(P, fn_qual, call_rx, arg, origin_rx, which='all', min_sites=1):
    """at every call in F matching call_rx, the def-use origin of argument `arg` matches origin_rx"""
    fn = P.fn(fn_qual)
    body = P.body(fn)
    o = Origins(body)
    rx = re.compile(call_rx)
    orx = re.compile(origin_rx)
    r = Res()
    sites = body.calls(lambda t: call_matches(t, rx))
    if not sites and fn['kind'] != 'Closure':
        # the call may sit in a closure of F (a loop body rewritten as `iter().try_for_each(|x| ..)`): captured variables print
        # under their names, so the same origin pattern applies
        for k in P.closures_of(fn['key']):
            if P.body(P.fns[k]).calls(lambda t: call_matches(t, rx)):
                try:
                    return wire(P, k, call_rx, arg, origin_rx, which, min_sites)
                except AnchorMissing:
                    continue
    if len(sites) < min_sites:
        raise AnchorMissing('`%s` has %d call(s) matching %s (need %d)' % (fn_qual, len(sites), call_rx, min_sites))
    nok = 0
    bad = []
    for bi, t in sites:
        s = o.arg_str(t, arg)
        r.site('%s @%s arg%d = %s' % (fn['qual'], body.ln(bi), arg, s[:200]))
        if orx.search(s):
            nok += 1
        else:
            bad.append((bi, s))
    if which == 'all' and bad:
        for bi, s in bad:
            r.bad('wiring', 'in `%s` argument %d of %s is wired to `%s`, expected an origin matching /%s/'
                  % (fn['qual'], arg, call_rx, s[:300], origin_rx), where=[body.ln(bi)])
    if which == 'any' and nok == 0:
        r.bad('wiring', 'in `%s` no call to %s has argument %d wired to /%s/ (found: %s)'
              % (fn['qual'], call_rx, arg, origin_rx, '; '.join(s[:120] for _, s in bad[:3])), where=[body.ln(b) for b, _ in bad[:3]])
    return r


def assigns(P, fn_qual, target_rx, origin_rx=None):
    """assignments in F whose target place (printed `self.a.b`) matches target_rx; optionally check origin"""
    fn = P.fn(fn_qual)
    body = P.body(fn)
    o = Origins(body)
    trx = re.compile(target_rx)
    out = []
    for bi, b in enumerate(body.B):
        if b.get('cu'):
            continue
        for st in b['st']:
            if '*' in st['lhs']['p'] or st['lhs']['p']:
                ps = o.place_str(st['lhs'])
                if trx.search(ps):
                    out.append((bi, st['ln'], ps, o.def_str(('st', st['rv'], bi, 0), 1)))
        t = b['term']
        if t['k'] == 'call' and t['dest']['p']:
            ps = o.place_str(t['dest'])
            if trx.search(ps):
                out.append((bi, b['ln'], ps, o.def_str(('call', t, bi), 1)))
    return out


def install(P, fn_qual, mapping, root='self'):
    """INSTALL: every target path in `mapping` is assigned in F from an origin matching its regex"""
    fn = P.fn(fn_qual)
    r = Res()
    for target, orx in mapping.items():
        hits = assigns(P, fn_qual, r'^%s\.%s$' % (re.escape(root), re.escape(target)))
        if not hits:
            r.bad('not-installed:' + target, '`%s` no longer assigns %s.%s' % (fn['qual'], root, target), where=[fn['loc']])
            continue
        for bi, ln, ps, src in hits:
            r.site('%s @%s %s = %s' % (fn['qual'], ln, ps, src[:160]))
            if orx and not re.search(orx, src):
                r.bad('wrong-source:' + target, '`%s` assigns %s from `%s`, expected origin /%s/' % (fn['qual'], ps, src[:300], orx), where=[ln])
    return r


# ------------------------------------------------------------------------------ ERRSET
def reachable_bodies(P, resolver, roots):
    """(key, env) contexts reachable from the root functions through resolved calls and closures"""
    seen = set()
    work = list(roots)
    while work:
        k, envk = work.pop()
        if (k, envk) in seen:
            continue
        seen.add((k, envk))
        fn = P.fns[k]
        env = dict(envk)
        for ck in P.children.get(k, []):
            work.append((ck, envk))
        for b in fn['blocks']:
            if b.get('cu'):
                continue
            t = b['term']
            if t['k'] != 'call':
                continue
            ck, cenv, how = resolver.resolve(fn, t, env)
            if ck:
                ek = tuple(sorted((a, v) for a, v in (cenv or {}).items() if v.startswith('adt:')))
                work.append((ck, ek))
            # fn items passed as values
            for a in t['args']:
                if a['k'] == 'const' and 'fn' in a['v']:
                    fk = P.lookup(a['v']['fn'], fn['crate'])
                    if fk:
                        work.append((fk, ()))
    return seen


def constructed_variants(P, keys, enum_path_rx=r'(client::MlsError|mls_rs::client::MlsError)'):
    rx = re.compile(enum_path_rx)
    out = collections.defaultdict(list)
    for k in keys:
        fn = P.fns[k]
        for b in fn['blocks']:
            if b.get('cu'):
                continue
            for st in b['st']:
                rv = st['rv']
                if rv['k'] == 'agg' and rv['what'].startswith('adt:') and rx.search(rv['what']):
                    out[rv['what'].split('::')[-1]].append('%s @%s' % (fn['qual'], st['ln']))
    return out


def errset(P, resolver, entry_quals, variants, env=None):
    roots = []
    for q in entry_quals:
        fn = P.fn(q)
        roots.append((fn['key'], tuple(sorted((env or {}).items()))))
    seen = reachable_bodies(P, resolver, roots)
    keys = set(k for k, _ in seen)
    cons = constructed_variants(P, keys)
    r = Res()
    r.detail = {'reachable_bodies': len(keys)}
    for v in variants:
        if v in cons:
            r.site('%s: %s' % (v, cons[v][0]))
        else:
            r.bad('variant-unreachable:' + v, 'error variant MlsError::%s is no longer constructed in code reachable from %s '
                  '(the check that raised it is gone or disconnected)' % (v, ', '.join(entry_quals)))
    return r


# ------------------------------------------------------------------------------ MUST-PASS (alternatives, from a start point)
def must_pass_from(P, fn_qual, from_rx, callee_rx):
    """every path from (the return of) a call matching `from_rx` to a success return passes a checked call matching callee_rx"""
    fn = P.fn(fn_qual)
    body = P.body(fn)
    frx, rx = re.compile(from_rx), re.compile(callee_rx)
    starts = [body.term(bi)['t'] for bi, t in body.calls(lambda t: call_matches(t, frx)) if body.term(bi)['t'] >= 0]
    if not starts:
        raise AnchorMissing('`%s` has no call matching %s' % (fn_qual, from_rx))
    r = Res()
    barriers = set()
    for bi, t in body.calls(lambda t: call_matches(t, rx)):
        passes, why = checked_pass_blocks(body, bi)
        r.site('%s @%s (%s)' % (fn['qual'], body.ln(bi), why))
        if not passes:
            r.bad('result-dropped', 'in `%s` the result of %s is not checked' % (fn['qual'], callee_name(t)), where=[body.ln(bi)])
        barriers |= passes
    if not r.sites:
        r.bad('call-missing', '`%s` no longer calls %s' % (fn['qual'], callee_rx))
        return r
    avoid = barriers | set(body.err_blocks)
    reach = body.reach(starts, avoid)
    rets = [bi for bi in reach if body.term(bi)['k'] == 'return']
    if rets:
        r.bad('bypass', 'in `%s` a path from %s reaches a success return without a successful %s'
              % (fn['qual'], from_rx, callee_rx), where=[body.ln(b) for b in rets[:3]])
    return r


# ------------------------------------------------------------------------------ COVERS
def locate_aggregate(P, fn, tpath):
    """the statement in F that builds a value of the ADT `tpath`, and the Origins to print its operands with. When F hands the
    construction to a module-private helper, the helper's aggregate is returned with the helper's parameters replaced by the origins
    of the arguments F passes (so `self.x` / `ciphertext.y` patterns written for F still apply)."""
    body = P.body(fn)
    found = None
    for b in body.B:
        for st in b['st']:
            rv = st['rv']
            if rv['k'] == 'agg' and rv['what'].startswith('adt:' + tpath + '::'):
                found = (rv, st['ln'])
    o = Origins(body)
    if found:
        return found[0], found[1], o
    for bi, t in body.calls():
        h = P.fns.get(callee_resolved(t)) or P.fns.get(callee_path(t))
        if h is None or h is fn or not module_private(h) or h['argc'] != len(t['args']):
            continue
        hb = P.body(h)
        for b in hb.B:
            for st in b['st']:
                rv = st['rv']
                if rv['k'] == 'agg' and rv['what'].startswith('adt:' + tpath + '::'):
                    sub = Origins(hb)
                    sub.param_subst = {i + 1: o.op_str(a) for i, a in enumerate(t['args'])}
                    return rv, st['ln'], sub
    return None


def covers(P, fn_qual, t_short, s_short, exclude=(), root='self', extra=None):
    """the signed / MACed / AAD struct T built in F carries every field of S (minus `exclude`), each taken from
    `root.<same field>`; `extra` = {field: origin regex} for fields of T that do not come from S"""
    fn = P.fn(fn_qual)
    body = P.body(fn)
    o = Origins(body)
    tf = P.fields(t_short)
    sf = [f for f in P.fields(s_short) if f not in exclude]
    r = Res()
    tpath = P.adt(t_short)['path']
    loc = locate_aggregate(P, fn, tpath)
    if loc is None:
        raise AnchorMissing('`%s` does not build a %s' % (fn_qual, t_short))
    rv, ln, o = loc
    got = {n: o.op_str(op) for n, op in zip(rv['names'], rv['ops'])}
    for f in sf:
        r.site('%s.%s <- %s' % (t_short, f, got.get(f, '<absent>')[:80]))
        if f not in tf:
            r.bad('uncovered-field:' + f, 'field `%s` of %s is not part of %s: it is not covered by the signature / MAC / AAD, '
                  'so it can be modified without detection' % (f, s_short, t_short), where=[ln])
        elif not re.search(r'^%s\.%s\b' % (re.escape(root), re.escape(f)), got.get(f, '')):
            r.bad('miswired-field:' + f, '%s.%s is built from `%s`, expected %s.%s' % (t_short, f, got.get(f, ''), root, f), where=[ln])
    for f, rx in (extra or {}).items():
        r.site('%s.%s <- %s' % (t_short, f, got.get(f, '<absent>')[:80]))
        if f not in got or not re.search(rx, got[f]):
            r.bad('miswired-field:' + f, '%s.%s is built from `%s`, expected origin /%s/' % (t_short, f, got.get(f, '<absent>'), rx), where=[ln])
    return r


# ------------------------------------------------------------------------------ writes dominated by a guard
def writes_after_guard(P, fn_qual, rel, a_rx, b_rx=None, root_local=1):
    """every assignment through the receiver (`self.x = ..`) in F is unreachable unless the guard has passed"""
    fn = P.fn(fn_qual)
    body = P.body(fn)
    gs = [g for g in GuardExtractor(body).guards() if g.matches(rel, a_rx, b_rx)]
    if not gs:
        raise AnchorMissing('`%s` has no guard [%s %s %s]' % (fn_qual, a_rx, rel, b_rx))
    g = gs[0]
    if g.idiom == 'branch':
        pass_blocks = [s for s in body.succs(g.block) if s != g.fail_block]
    else:
        # `cond.then_some(x).ok_or(E)?`: the pass point is the Continue arm of the `?` on the ok_or result
        d = body.term(g.block)['dest']['l']
        pass_blocks = []
        for bi, t in body.calls_named(r'Option::ok_or(_else)?$'):
            a = t['args'][0]
            if a['k'] in ('copy', 'move') and a['pl']['l'] == d:
                pass_blocks = list(checked_pass_blocks(body, bi)[0])
        if not pass_blocks:
            raise AnchorMissing('`%s`: the result of the then_some/ok_or guard is not checked' % fn_qual)
    reach = body.reach([0], set(pass_blocks))
    r = Res()
    for bi, b in enumerate(body.B):
        if b.get('cu'):
            continue
        for st in b['st']:
            lhs = st['lhs']
            if lhs['l'] == root_local and '*' in lhs['p'] and any(e.startswith('.') for e in lhs['p']):
                r.site('%s @%s' % (fn['qual'], st['ln']))
                if bi in reach:
                    r.bad('write-before-guard', 'in `%s` the receiver is written at %s on a path that has not passed the check [%s]'
                          % (fn['qual'], st['ln'], g.text()[:120]), where=[st['ln'], g.ln])
    return r


# ------------------------------------------------------------------------------ inventories (reference = today's reviewed tree)
def guard_inventory(P, files):
    """{source file: {"fails-when REL => ERRORS": count}} over the functions (and closures) defined in `files`"""
    out = {}
    hints = {}
    for fn in fns_in_files(P, files):
        if fn.get('mac'):
            continue
        gs = guards_of(P, fn)
        fl = fn['loc'].rsplit(':', 1)[0]
        for g in gs:
            # `fails when c` and `fails when !c` are one key (`all(p)` vs `any(!p)`, `is_none()` vs `!is_some()`); the polarity of
            # ordered / equality comparisons is kept
            k = '%s => %s' % ('cond' if g.rel in ('truth', 'not') else g.rel, ','.join(sorted(g.errs)))
            out.setdefault(fl, {})
            out[fl][k] = out[fl].get(k, 0) + 1
            hints.setdefault(fl, {}).setdefault(k, set()).add(owner_qual(P, fn))
    guard_inventory.hints = {f: {k: sorted(v) for k, v in d.items()} for f, d in hints.items()}
    return out


def err_inventory(P, files, enum_rx=r'(MlsError|mls_rs_codec::Error|SqLiteDataStorageError)'):
    """{source file: {error variant: number of construction sites}}"""
    erx = re.compile(enum_rx)
    out = {}
    hints = {}
    for fn in fns_in_files(P, files):
        if fn.get('mac'):
            continue
        fl = fn['loc'].rsplit(':', 1)[0]
        for b in fn['blocks']:
            if b.get('cu'):
                continue
            for st in b['st']:
                rv = st['rv']
                if rv['k'] == 'agg' and rv['what'].startswith('adt:') and erx.search(rv['what']):
                    v = rv['what'].split('::')[-1]
                    out.setdefault(fl, {})
                    out[fl][v] = out[fl].get(v, 0) + 1
                    hints.setdefault(fl, {}).setdefault(v, set()).add(owner_qual(P, fn))
    err_inventory.hints = {f: {k: sorted(v) for k, v in d.items()} for f, d in hints.items()}
    return out


def inventory_check(current, baseline, what, describe):
    """every baseline entry must still be present (additions are fine)"""
    r = Res()
    for fnq, items in sorted(baseline.items()):
        cur = current.get(fnq)
        if isinstance(items, dict):
            for k, n in sorted(items.items()):
                r.site('%s: %s x%d' % (fnq, k, n))
                have = (cur or {}).get(k, 0)
                if have < n:
                    r.bad('fn=%s|%s=%s' % (fnq, what, k), describe(fnq, k, n, have, cur))
        else:
            for k in items:
                r.site('%s: %s' % (fnq, k))
                if cur is None or k not in cur:
                    r.bad('fn=%s|%s=%s' % (fnq, what, k), describe(fnq, k, 1, 0, cur))
    return r


# ------------------------------------------------------------------------------ CHECKED-CALL
def checked_calls(P, callee_rx, fn_rx=None, allow_unchecked=()):
    """every call site (program-wide, or in functions matching fn_rx) of a callee matching callee_rx has its
    Result checked in place (`?`, match, return) -- it is not dropped, stored, or handed to a combinator that may swallow it"""
    rx = re.compile(callee_rx)
    frx = re.compile(fn_rx) if fn_rx else None
    r = Res()
    for fn in P.fns.values():
        if frx and not frx.search(fn['qual']):
            continue
        body = None
        for bi, b in enumerate(fn['blocks']):
            if b.get('cu'):
                continue
            t = b['term']
            if t['k'] != 'call' or not call_matches(t, rx):
                continue
            if body is None:
                body = P.body(fn)
            passes, why = checked_pass_blocks(body, bi)
            oq = owner_qual(P, fn)
            r.site('%s @%s (%s)' % (oq, b['ln'], why))
            if not passes and oq not in allow_unchecked:
                r.bad('unchecked:%s|callee=%s' % (oq, callee_name(t)),
                      'in `%s` the result of %s is not checked in place (%s): its failure can be swallowed or deferred'
                      % (oq, callee_name(t), why), where=[b['ln']])
    return r


# ------------------------------------------------------------------------------ PAIR
def pair(P, fn_qual, take_rx, put_rx):
    """every path from a successful `take` to ANY exit of F (success or error) passes a `put`"""
    fn = P.fn(fn_qual)
    body = P.body(fn)
    trx, prx = re.compile(take_rx), re.compile(put_rx)
    takes = body.calls(lambda t: call_matches(t, trx))
    puts = [bi for bi, t in body.calls(lambda t: call_matches(t, prx))]
    if not takes:
        raise AnchorMissing('`%s` has no call matching %s' % (fn_qual, take_rx))
    r = Res()
    if not puts:
        r.bad('put-missing', '`%s` takes (%s) but never puts back (%s)' % (fn['qual'], take_rx, put_rx), where=[fn['loc']])
        return r
    starts = set()
    for bi, t in takes:
        passes, why = checked_pass_blocks(body, bi)
        r.site('%s @%s' % (fn['qual'], body.ln(bi)))
        starts |= passes
    reach = body.reach(list(starts), set(puts))
    exits = [bi for bi in reach if body.term(bi)['k'] == 'return']
    if exits:
        wit = _witness_path(body, next(iter(starts)), set(exits), set(puts)) if starts else []
        r.bad('unpaired-exit', 'in `%s` an exit is reachable after %s without %s (the taken value is lost on that path)'
              % (fn['qual'], take_rx, put_rx), where=[body.ln(b) for b in (wit[-5:] or exits[:2])])
    return r


# ------------------------------------------------------------------------------ field access discipline
def field_method_uses(P, adt_short, field):
    """calls whose receiver (argument 0) is `<x>.field` of the ADT: [(fn, ln, callee short name)]"""
    adt = P.adt(adt_short)
    apath = adt['path']
    if not any(f['name'] == field for v in adt['variants'] for f in v['fields']):
        raise AnchorMissing('field %s.%s does not exist' % (adt_short, field))
    out = []

    def is_field_place(pl):
        ps = [e for e in pl['p'] if e.startswith('.')]
        os_ = pl.get('o') or []
        return bool(ps) and len(os_) == len(ps) and ps[-1] == '.' + field and same_adt(os_[-1], apath)

    for fn in P.fns.values():
        # locals that are references to the field
        refs = set()
        for b in fn['blocks']:
            for st in b['st']:
                rv = st['rv']
                if rv['k'] in ('ref', 'rawptr') and is_field_place(rv['pl']) and not st['lhs']['p']:
                    refs.add(st['lhs']['l'])
                if rv['k'] == 'use' and rv['o']['k'] in ('copy', 'move') and is_field_place(rv['o']['pl']) and not st['lhs']['p']:
                    refs.add(st['lhs']['l'])
        if not refs:
            continue
        changed = True
        while changed:
            changed = False
            for b in fn['blocks']:
                for st in b['st']:
                    rv = st['rv']
                    src = None
                    if rv['k'] == 'use' and rv['o']['k'] in ('copy', 'move') and not rv['o']['pl']['p']:
                        src = rv['o']['pl']['l']
                    if rv['k'] in ('ref', 'rawptr') and rv['pl']['p'] == ['*']:
                        src = rv['pl']['l']
                    if src in refs and not st['lhs']['p'] and st['lhs']['l'] not in refs:
                        refs.add(st['lhs']['l'])
                        changed = True
                t = b['term']
                if t['k'] == 'call' and t['args'] and re.search(r'::(deref|deref_mut|as_ref|as_mut|borrow|borrow_mut)$', callee_path(t)):
                    a0 = t['args'][0]
                    if a0['k'] in ('copy', 'move') and not a0['pl']['p'] and a0['pl']['l'] in refs and not t['dest']['p'] \
                            and t['dest']['l'] not in refs:
                        refs.add(t['dest']['l'])
                        changed = True
        for b in fn['blocks']:
            if b.get('cu'):
                continue
            t = b['term']
            if t['k'] == 'call' and t['args']:
                a0 = t['args'][0]
                if a0['k'] in ('copy', 'move') and not a0['pl']['p'] and a0['pl']['l'] in refs:
                    if re.search(r'::(deref|deref_mut|as_ref|as_mut|borrow|borrow_mut)$', callee_path(t)):
                        continue
                    out.append((fn, b['ln'], callee_name(t)))
    return out


def field_discipline(P, adt_short, field, allowed_methods):
    """the field is touched only through the allowed methods (e.g. a consuming `remove_entry`, never `get`/`clone`)"""
    allow = [re.compile(a) for a in allowed_methods]
    r = Res()
    for fn, ln, m in field_method_uses(P, adt_short, field):
        oq = owner_qual(P, fn)
        r.site('%s @%s %s' % (oq, ln, m))
        if not any(a.search(m) for a in allow):
            r.bad('fn=%s|method=%s' % (oq, m), '`%s` accesses %s.%s through %s, which is not one of the allowed accessors %s'
                  % (oq, adt_short, field, m, allowed_methods), where=[ln])
    return r


# ------------------------------------------------------------------------------ variant-arm wiring
def arm_wiring(P, fn_qual, enum_short, expect, what='call', call_rx=None, arg=0, _depth=0):
    """for the `match` on a value of enum `enum_short` in F: in the arm of variant V the first matching call
    (or aggregate) has an origin matching expect[V]"""
    fn = P.fn(fn_qual)
    body = P.body(fn)
    adt = P.adt(enum_short)
    o = Origins(body)
    r = Res()
    vals = {str(v['discr']): v['name'] for v in adt['variants']}
    crx = re.compile(call_rx) if call_rx else None
    found = 0
    for bi, b in enumerate(body.B):
        t = b['term']
        if t['k'] != 'switch' or b.get('cu'):
            continue
        # discriminant of a place of the enum type?
        dl = t['d']['pl']['l'] if t['d']['k'] in ('copy', 'move') else None
        src = None
        for st in b['st']:
            if st['rv']['k'] == 'discr' and not st['lhs']['p'] and st['lhs']['l'] == dl:
                src = st['rv']['pl']
        if src is None:
            continue
        lty = body.fn['locals'][src['l']]['head'] if not [e for e in src['p'] if e != '*'] else ''
        ptxt = o.place_str(src)
        owners = src.get('o') or []
        is_enum = (lty == 'adt:' + adt['path'])
        if not is_enum and src['p']:
            # field place: use the declared type of the last field when available
            ps = [e for e in src['p'] if e.startswith('.')]
            if ps and owners:
                own = _adt_of_owner(P, owners[-1])
                if own:
                    for v in own['variants']:
                        for f in v['fields']:
                            if '.' + f['name'] == ps[-1] and _last(f['ty']) == _last(adt['path']):
                                is_enum = True
        if not is_enum:
            continue
        found += 1
        arms = {}
        for v, tg in t['ts']:
            if v in vals:
                arms[vals[v]] = tg
        rest = [n for n in vals.values() if n not in arms]
        if len(rest) == 1:
            arms[rest[0]] = t['o']
        for vname, rx in expect.items():
            if vname not in arms:
                r.bad('arm-missing:' + vname, 'in `%s` the match on %s has no arm for %s' % (fn['qual'], enum_short, vname), where=[b['ln']])
                continue
            got = _first_in_arm(body, o, arms[vname], crx, arg, what)
            r.site('%s: %s => %s' % (fn['qual'], vname, (got or '<none>')[:100]))
            if got is None or not re.search(rx, got):
                r.bad('arm-wiring:' + vname, 'in `%s` the %s arm of the match on %s uses `%s`, expected /%s/'
                      % (fn['qual'], vname, enum_short, got, rx), where=[b['ln']])
    if not found and _depth < 1:
        # the match may have been extracted into a module-private helper of the same crate that F calls
        for bi, t in body.calls():
            h = P.fns.get(callee_resolved(t)) or P.fns.get(callee_path(t))
            if h is None or h is fn or not module_private(h):
                continue
            try:
                hr = arm_wiring(P, h['key'], enum_short, expect, what, call_rx, arg, _depth + 1)
            except AnchorMissing:
                continue
            if hr.sites:
                hr.sites = ['%s -> helper %s' % (fn['qual'], x) for x in hr.sites]
                return hr
    if not found:
        raise AnchorMissing('`%s` has no match on a value of type %s' % (fn_qual, enum_short))
    return r


def _first_in_arm(body, o, start, crx, arg, what):
    seen = set()
    flags = {}
    arm_defs = {}
    bi = start
    while bi not in seen:
        seen.add(bi)
        b = body.B[bi]
        if what == 'agg':
            for st in b['st']:
                rv = st['rv']
                if rv['k'] == 'agg' and rv['what'].startswith('adt:') and (crx is None or crx.search(rv['what'])):
                    return rv['what'].split('::')[-1]
        # values the arm itself gives to locals (`let r = match k { A => &mut self.a, B => &mut self.b }; r.call()`): the call after
        # the join sees them through this arm
        for st in b['st']:
            if not st['lhs']['p'] and st['rv']['k'] in ('ref', 'use', 'agg'):
                rv_ = st['rv']
                src_ = None
                if rv_['k'] == 'ref' and not [e for e in rv_['pl']['p'] if e != '*']:
                    src_ = rv_['pl']['l']
                elif rv_['k'] == 'use' and rv_['o']['k'] in ('copy', 'move') and not [e for e in rv_['o']['pl']['p'] if e != '*']:
                    src_ = rv_['o']['pl']['l']
                if src_ is not None and src_ in arm_defs:
                    arm_defs[st['lhs']['l']] = arm_defs[src_]        # reborrow / copy of a value this arm defined
                    continue
                try:
                    arm_defs[st['lhs']['l']] = o.def_str(('st', st['rv'], bi, 0), 1)
                except Exception:
                    pass
        t = b['term']
        if what == 'call' and t['k'] == 'call' and (crx is None or call_matches(t, crx)):
            if arg < len(t['args']):
                a = t['args'][arg]
                seen_l = set()
                while a['k'] in ('copy', 'move') and not [e for e in a['pl']['p'] if e != '*'] and a['pl']['l'] not in seen_l:
                    l0 = a['pl']['l']
                    seen_l.add(l0)
                    if l0 in arm_defs:
                        return arm_defs[l0]
                    ds = body.defs.get(l0, [])
                    nxt = None
                    if len(ds) == 1 and ds[0][0] == 'st':
                        rv0 = ds[0][1]
                        if rv0['k'] == 'ref' and not [e for e in rv0['pl']['p'] if e != '*']:
                            nxt = {'k': 'copy', 'pl': {'l': rv0['pl']['l'], 'p': []}}
                        elif rv0['k'] == 'use' and rv0['o']['k'] in ('copy', 'move'):
                            nxt = rv0['o']
                    if nxt is None:
                        break
                    a = nxt
            return o.arg_str(t, arg)
        # `if matches!(x, V) {..} else {..}`: the arm sets a bool flag that a later two-way branch reads; follow the edge the flag selects
        for st in b['st']:
            rv = st['rv']
            if not st['lhs']['p'] and rv['k'] == 'use' and rv['o']['k'] == 'const' and rv['o']['v'].get('ty') == 'bool':
                flags[st['lhs']['l']] = str(rv['o']['v'].get('v'))
            elif not st['lhs']['p'] and rv['k'] == 'use' and rv['o']['k'] in ('copy', 'move') and not rv['o']['pl']['p'] and rv['o']['pl']['l'] in flags:
                flags[st['lhs']['l']] = flags[rv['o']['pl']['l']]
        if t['k'] == 'switch' and t['d']['k'] in ('copy', 'move') and not t['d']['pl']['p'] and t['d']['pl']['l'] in flags and len(t['ts']) == 1:
            v, tgt = t['ts'][0]
            bi = tgt if str(v) == flags[t['d']['pl']['l']] else t['o']
            continue
        nx = body.succs(bi)
        if len(nx) != 1:
            return None
        bi = nx[0]
    return None


# ------------------------------------------------------------------------------ WHO-READS-DISCR
def discr_reads(P, enum_short):
    """functions that branch on (or compare) the discriminant of a value of the enum: [(fn, ln)]"""
    adt = P.adt(enum_short)
    apath = adt['path']
    out = []
    for fn in P.fns.values():
        for bi, b in enumerate(fn['blocks']):
            if b.get('cu'):
                continue
            for st in b['st']:
                rv = st['rv']
                if rv['k'] != 'discr':
                    continue
                src = rv['pl']
                fields = [e for e in src['p'] if e.startswith('.')]
                is_enum = False
                if not fields:
                    is_enum = fn['locals'][src['l']]['head'] == 'adt:' + apath
                else:
                    owners = src.get('o') or []
                    own = _adt_of_owner(P, owners[-1]) if owners else None
                    if own:
                        for v in own['variants']:
                            for f in v['fields']:
                                if '.' + f['name'] == fields[-1] and _last(f['ty']) == _last(apath):
                                    is_enum = True
                if is_enum:
                    out.append((fn, st['ln']))
    return out


def who_reads_discr(P, enum_short, allowed):
    allow = [re.compile(a) for a in allowed]
    r = Res()
    for fn, ln in discr_reads(P, enum_short):
        oq = owner_qual(P, fn)
        if fn.get('mac'):        # derive-generated (Debug, Clone, PartialEq, codec)
            continue
        r.site('%s @%s' % (oq, ln))
        if not any(a.search(oq) for a in allow):
            r.bad('reader=' + oq, '`%s` branches on %s: only %s may make behaviour depend on it' % (oq, enum_short, allowed), where=[ln])
    return r


# ------------------------------------------------------------------------------ struct-to-struct completeness
def struct_map(P, fn_qual, target_short, mapping, src_root, exempt=None, variant=None):
    """INSTALL (struct form): F builds `target` and every field of it is filled from the mapped origin.
    mapping: {target field: origin regex} ; fields of target not in mapping and not in exempt are violations"""
    fn = P.fn(fn_qual)
    body = P.body(fn)
    o = Origins(body)
    tpath = P.adt(target_short)['path']
    tf = P.fields(target_short, variant)
    r = Res()
    loc = locate_aggregate(P, fn, tpath)
    if loc is None:
        raise AnchorMissing('`%s` does not build a %s' % (fn_qual, target_short))
    rv, ln, o = loc
    got = {n: o.op_str(op) for n, op in zip(rv['names'], rv['ops'])}
    for f in tf:
        if exempt and f in exempt:
            continue
        if f not in mapping:
            r.bad('unmapped-field:' + f, '%s has a field `%s` that the rule table of `%s` does not know: it is not checked to be '
                  'saved / restored' % (target_short, f, fn['qual']), where=[ln])
            continue
        r.site('%s.%s <- %s' % (target_short, f, got.get(f, '<absent>')[:90]))
        if not re.search(mapping[f], got.get(f, '')):
            r.bad('miswired-field:' + f, 'in `%s` %s.%s is built from `%s`, expected origin /%s/' % (fn['qual'], target_short, f, got.get(f, ''), mapping[f]), where=[ln])
    return r


# ------------------------------------------------------------------------------ branch-conditioned must-pass
def branch_must_pass(P, fn_qual, cond_rx, when_true, callee_rx, to_any_exit=False):
    """on the side of the branch `if <cond matching cond_rx>` selected by `when_true`, every path to a success
    return (or to any exit) passes a call matching callee_rx"""
    fn = P.fn(fn_qual)
    body = P.body(fn)
    gx = GuardExtractor(body)
    crx, rx = re.compile(cond_rx), re.compile(callee_rx)
    r = Res()
    calls = [bi for bi, t in body.calls(lambda t: call_matches(t, rx))]
    found = False
    for bi, b in enumerate(body.B):
        t = b['term']
        if b.get('cu') or t['k'] != 'switch' or t['d']['k'] not in ('copy', 'move') or t['d']['pl']['p']:
            continue
        l = t['d']['pl']['l']
        if body.fn['locals'][l]['ty'] != 'bool' or len(t['ts']) != 1:
            continue
        rel = gx.cond_of_local(l)
        txt = '%s %s %s' % (rel[1], rel[0], rel[2])
        if not crx.search(txt):
            continue
        positive = rel[0] in ('truth', '==', '<', '<=', '>', '>=', '!=')
        v, tgt = t['ts'][0]
        false_t, true_t = (tgt, t['o']) if v == '0' else (t['o'], tgt)
        if rel[0] == 'not':
            false_t, true_t = true_t, false_t
        start = true_t if when_true else false_t
        found = True
        r.site('%s @%s if %s' % (fn['qual'], b['ln'], txt[:100]))
        barriers = set(body.term(c)['t'] for c in calls if body.term(c)['t'] >= 0)
        avoid = barriers | (set() if to_any_exit else set(body.err_blocks))
        reach = body.reach([start], avoid)
        if any(body.term(x)['k'] == 'return' for x in reach):
            r.bad('bypass', 'in `%s`, when `%s` is %s, an exit is reachable without %s' % (fn['qual'], txt[:120], when_true, callee_rx), where=[b['ln']])
    if not found:
        raise AnchorMissing('`%s` has no branch on a condition matching /%s/' % (fn_qual, cond_rx))
    if not calls:
        r.bad('call-missing', '`%s` no longer calls %s' % (fn['qual'], callee_rx))
    return r


# ------------------------------------------------------------------------------ bool predicate: trigger => true
def predicate_implied_by(P, fn_qual, trigger_rx, arg_rx=None, arg=0):
    """`fn_qual` returns bool. For every call T matching trigger_rx (argument `arg` origin matching arg_rx):
      (a) every path from the entry to a return on which the result is not the constant `true` evaluates T
          (removing the `_0 = true` blocks and T's own block disconnects entry from return), and
      (b) when T yields true the function returns true: T's result is either the function result itself or is
          branched on with the true side reaching only `_0 = true` returns.
    Together: T(x) => fn(x), on every path."""
    fn = P.fn(fn_qual)
    body = P.body(fn)
    o = Origins(body)
    r = Res()
    if fn['locals'][0]['ty'] != 'bool':
        raise AnchorMissing('`%s` no longer returns bool' % fn_qual)
    rets = set(body.return_blocks())

    def defs0(bi):
        b = body.B[bi]
        out = []
        for st in b['st']:
            if st['lhs']['l'] == 0 and not st['lhs']['p']:
                out.append(st['rv'])
        t = b['term']
        if t['k'] == 'call' and t['dest']['l'] == 0 and not t['dest']['p']:
            out.append('call')
        return out

    def is_true_const(rv):
        return rv != 'call' and rv['k'] == 'use' and rv['o']['k'] == 'const' and rv['o']['v'].get('ty') == 'bool' and str(rv['o']['v'].get('v')) == '1'

    other_defs = set()
    true_blocks = set()
    for bi, b in enumerate(body.B):
        if b.get('cu'):
            continue
        d = defs0(bi)
        if not d:
            continue
        if len(d) == 1 and is_true_const(d[0]):
            true_blocks.add(bi)
        else:
            other_defs.add(bi)
    # a `_0 = true` block is final when no other definition of the result is reachable from it
    final_true = set()
    for bi in true_blocks:
        rc = body.reach(body.succs(bi))
        if not (rc & other_defs):
            final_true.add(bi)
    rx = re.compile(trigger_rx)
    arx = re.compile(arg_rx) if arg_rx else None
    trig = []
    for bi, t in body.calls(lambda t: call_matches(t, rx)):
        a = o.arg_str(t, arg)
        if arx is None or arx.search(a):
            trig.append((bi, t, a))
    if not trig:
        raise AnchorMissing('`%s` no longer evaluates %s(%s)' % (fn_qual, trigger_rx, arg_rx or ''))
    for bi, t, a in trig:
        r.site('%s @%s %s(%s)' % (fn['qual'], body.ln(bi), callee_name(t), a[:80]))
        # (a)
        rc = body.reach([0], final_true | {bi})
        if rc & rets:
            w = _witness_path(body, 0, rets, final_true | {bi})
            r.bad('bypass:' + normalise_operand(a)[:60],
                  '`%s` can return a value other than `true` without evaluating %s(%s): some path decides the result before this test'
                  % (fn['qual'], callee_name(t), a[:80]), where=[body.ln(x) for x in (w or [])[:6]])
            continue
        # (b)
        d = t['dest']
        if d['l'] == 0 and not d['p']:
            nxt = body.reach([t['t']]) if t['t'] >= 0 else set()
            if nxt & (other_defs | true_blocks):
                r.bad('overwritten:' + normalise_operand(a)[:60], 'the result of %s(%s) is overwritten before `%s` returns' % (callee_name(t), a[:80], fn['qual']), where=[body.ln(bi)])
            continue
        ok = False
        for sb, blk in enumerate(body.B):
            tt = blk['term']
            if blk.get('cu') or tt['k'] != 'switch' or tt['d']['k'] not in ('copy', 'move') or tt['d']['pl']['p'] or len(tt['ts']) != 1:
                continue
            l = tt['d']['pl']['l']
            srcs = {l}
            for dd in body.defs.get(l, []):
                if dd[0] == 'st' and dd[1]['k'] == 'use' and dd[1]['o']['k'] in ('copy', 'move') and not dd[1]['o']['pl']['p']:
                    srcs.add(dd[1]['o']['pl']['l'])
            if d['l'] not in srcs or d['p']:
                continue
            v, tgt = tt['ts'][0]
            false_t, true_t = (tgt, tt['o']) if v == '0' else (tt['o'], tgt)
            side = body.reach([true_t], final_true)
            if not (side & rets):
                ok = True
            else:
                r.bad('true-side:' + normalise_operand(a)[:60], 'in `%s`, when %s(%s) is true a return with a value other than the constant `true` is reachable'
                      % (fn['qual'], callee_name(t), a[:80]), where=[blk['ln']])
                ok = True
        if not ok:
            r.bad('unused:' + normalise_operand(a)[:60], 'in `%s` the result of %s(%s) neither is the result nor is branched on' % (fn['qual'], callee_name(t), a[:80]), where=[body.ln(bi)])
    return r


# ------------------------------------------------------------------------------ paired update on the Ok side of a fallible step
def on_ok_must_pass(P, fn_qual, producer_rx, callee_rx, what):
    """F calls a fallible step R = producer(..) and keeps going when R is Err under some conditions. On every path to a success return
    on which R can be Ok, a call matching callee_rx is passed. Path-sensitive in the variant of R only: tests of R (`if let Ok(..) = &R`,
    `R.is_ok()`, `R.is_err()`, `R?`) fix the variant along a path; every other branch is taken both ways."""
    fn = P.fn(fn_qual)
    body = P.body(fn)
    prx, crx = re.compile(producer_rx), re.compile(callee_rx)
    r = Res()
    prods = body.calls(lambda t: call_matches(t, prx))
    if not prods:
        raise AnchorMissing('`%s` has no call matching %s' % (fn_qual, producer_rx))
    goal = set(bi for bi, t in body.calls(lambda t: call_matches(t, crx)))
    if not goal:
        r.bad('call-missing', '`%s` no longer calls %s' % (fn['qual'], callee_rx))
        return r
    errs = set(body.err_blocks)
    for pbi, pt in prods:
        if pt['dest']['p']:
            continue
        R = pt['dest']['l']
        alias = {R}
        changed = True
        while changed:
            changed = False
            for b in body.B:
                for st in b['st']:
                    rv = st['rv']
                    src = None
                    if rv['k'] == 'ref' and not [e for e in rv['pl']['p'] if e != '*']:
                        src = rv['pl']['l']
                    elif rv['k'] == 'use' and rv['o']['k'] in ('copy', 'move') and not [e for e in rv['o']['pl']['p'] if e != '*']:
                        src = rv['o']['pl']['l']
                    if src in alias and not st['lhs']['p'] and st['lhs']['l'] not in alias:
                        alias.add(st['lhs']['l'])
                        changed = True
        # locals that TEST the variant: local -> {switch value: variant}
        tests = {}
        for bi, b in enumerate(body.B):
            for st in b['st']:
                rv = st['rv']
                if rv['k'] == 'discr' and rv['pl']['l'] in alias and not [e for e in rv['pl']['p'] if e != '*'] and not st['lhs']['p']:
                    tests[st['lhs']['l']] = {'0': 'Ok', '1': 'Err'}
            t = b['term']
            if t['k'] == 'call' and t['args'] and not t['dest']['p']:
                a0 = t['args'][0]
                if a0['k'] in ('copy', 'move') and a0['pl']['l'] in alias and not [e for e in a0['pl']['p'] if e != '*']:
                    cn = _nogen(callee_path(t))
                    if cn.endswith('::is_ok'):
                        tests[t['dest']['l']] = {'0': 'Err', '1': 'Ok'}
                    elif cn.endswith('::is_err'):
                        tests[t['dest']['l']] = {'0': 'Ok', '1': 'Err'}
                    elif cn.endswith('Try::branch'):
                        tests['cf:%d' % t['dest']['l']] = True
        for bi, b in enumerate(body.B):          # discriminant of the ControlFlow that `R?` produced
            for st in b['st']:
                rv = st['rv']
                if rv['k'] == 'discr' and ('cf:%d' % rv['pl']['l']) in tests and not rv['pl']['p'] and not st['lhs']['p']:
                    tests[st['lhs']['l']] = {'0': 'Ok', '1': 'Err'}
        start = pt['t']
        r.site('%s @%s %s' % (fn['qual'], body.ln(pbi), callee_name(pt)))
        seen = set()
        stack = [(start, None, (start,))]
        witness = None
        while stack and witness is None:
            bi, var, path = stack.pop()
            if (bi, var) in seen or bi is None or bi < 0:
                continue
            seen.add((bi, var))
            if bi in goal or bi in errs:
                continue
            t = body.term(bi)
            if t['k'] == 'return':
                if var != 'Err':
                    witness = path
                continue
            if t['k'] == 'switch' and t['d']['k'] in ('copy', 'move') and not t['d']['pl']['p'] and isinstance(tests.get(t['d']['pl']['l']), dict):
                mp = tests[t['d']['pl']['l']]
                taken = set()
                for v, tgt in t['ts']:
                    taken.add(str(v))
                    nv = mp.get(str(v))
                    if nv and var and nv != var:
                        continue
                    stack.append((tgt, nv or var, path + (tgt,)))
                rest = [x for k_, x in mp.items() if k_ not in taken]
                if t['o'] is not None and t['o'] >= 0 and body.B[t['o']]['term']['k'] != 'unreachable':
                    nv = rest[0] if len(rest) == 1 else None
                    if not (nv and var and nv != var):
                        stack.append((t['o'], nv or var, path + (t['o'],)))
                continue
            for sx in body.succs(bi):
                stack.append((sx, var, path + (sx,)))
        if witness:
            lines = []
            for x in witness:
                ln = body.ln(x)
                if not lines or lines[-1] != ln:
                    lines.append(ln)
            r.bad('ok-path-bypass', 'in `%s` %s: a success return is reachable on which %s succeeded and %s was not passed'
                  % (fn['qual'], what, callee_name(pt), callee_rx), where=lines[:10])
    return r


# ------------------------------------------------------------------------------ in-place operation (no temporary copy)
_COPY_CALL = re.compile(r'(::clone$|::cloned$|::to_owned$|::copied$|::to_vec$|mem::take$|mem::replace$)')


def operates_in_place(P, fn_qual, call_rx, arg, what):
    """Every call matching call_rx in F receives as argument `arg` a `&mut` that points INTO state that outlives F (a parameter, or a
    reference obtained from one): never a borrow of a function-local OWNED value and never something that went through
    clone()/cloned()/to_owned(). A mutation applied to a temporary copy is lost when F returns."""
    fn = P.fn(fn_qual)
    body = P.body(fn)
    rx = re.compile(call_rx)
    r = Res()
    calls = body.calls(lambda t: call_matches(t, rx))
    if not calls:
        raise AnchorMissing('`%s` has no call matching %s' % (fn_qual, call_rx))

    def trace(l, seen, depth=0):
        """-> None when fine, else a description of the copy"""
        if l in seen or depth > 12:
            return None
        seen = seen | {l}
        if 1 <= l <= body.argc:
            return None
        for d in body.defs.get(l, []):
            if d[0] == 'st':
                rv = d[1]
                if rv['k'] == 'ref':
                    pl = rv['pl']
                    base_ty = body.fn['locals'][pl['l']]['ty']
                    if '*' in pl['p'] or base_ty.startswith('&') or 1 <= pl['l'] <= body.argc:
                        x = trace(pl['l'], seen, depth + 1)
                        if x:
                            return x
                        continue
                    # borrow of an owned local: where does that local come from?
                    own = [dd for dd in body.defs.get(pl['l'], [])]
                    return 'a borrow of the function-local value `%s: %s` (%s)' % (
                        body.names.get(pl['l'], '_%d' % pl['l']), base_ty[:60], body.B[d[2]]['ln'])
                if rv['k'] in ('use', 'cast') and rv.get('o', {}).get('k') in ('copy', 'move'):
                    x = trace(rv['o']['pl']['l'], seen, depth + 1)
                    if x:
                        return x
                if rv['k'] == 'agg':
                    for op in rv['ops']:
                        if op['k'] in ('copy', 'move'):
                            x = trace(op['pl']['l'], seen, depth + 1)
                            if x:
                                return x
            else:
                t = d[1]
                cn = callee_path(t)
                if _COPY_CALL.search(_nogen(cn)):
                    return 'the result of %s (%s)' % (callee_name(t), body.B[d[2]]['ln'])
                for a in t['args'][:1]:
                    if a['k'] in ('copy', 'move'):
                        x = trace(a['pl']['l'], seen, depth + 1)
                        if x:
                            return x
        return None

    for bi, t in calls:
        a = t['args'][arg]
        r.site('%s @%s %s' % (fn['qual'], body.ln(bi), callee_name(t)))
        if a['k'] not in ('copy', 'move'):
            continue
        x = trace(a['pl']['l'], frozenset())
        if x:
            r.bad('temporary-copy', 'in `%s` %s works on %s instead of the stored state: what it consumes or advances is lost when the function returns'
                  % (fn['qual'], what, x), where=[body.ln(bi)])
    return r


# ------------------------------------------------------------------------------ indexed writes (`v[i] = x`)
def indexed_writes(P, fn_qual, container_rx):
    """assignments through `IndexMut::index_mut(container, idx)`: [(block, container str, index str, value str, ln)]"""
    fn = P.fn(fn_qual)
    body = P.body(fn)
    o = Origins(body)
    crx = re.compile(container_rx)
    out = []
    for bi, t in body.calls_named(r'IndexMut::index_mut$'):
        cont = o.arg_str(t, 0)
        if not crx.search(cont):
            continue
        idx = o.arg_str(t, 1)
        d = t['dest']['l']
        # find `(*d) = value` (possibly after a Drop of the old value)
        refs = {d}
        for b in body.B:
            for st in b['st']:
                rv = st['rv']
                if rv['k'] in ('ref', 'use') and not st['lhs']['p']:
                    src = rv['pl']['l'] if rv['k'] == 'ref' and rv['pl']['p'] == ['*'] else (rv['o']['pl']['l'] if rv['k'] == 'use' and rv['o']['k'] in ('copy', 'move') and not rv['o']['pl']['p'] else None)
                    if src in refs:
                        refs.add(st['lhs']['l'])
        for bj, b in enumerate(body.B):
            if b.get('cu'):
                continue
            for st in b['st']:
                if st['lhs']['l'] in refs and st['lhs']['p'] == ['*']:
                    rvv = st['rv']
                    raw = rvv['ops'][0] if rvv['k'] == 'agg' and len(rvv['ops']) == 1 else (rvv.get('o') if rvv['k'] == 'use' else None)
                    out.append((bj, cont, idx, o.def_str(('st', st['rv'], bj, 0), 1), st['ln'], raw))
            tt = b['term']
            if tt['k'] == 'call' and tt['dest']['l'] in refs and tt['dest']['p'] == ['*']:
                out.append((bj, cont, idx, o.def_str(('call', tt, bj), 1), b['ln'], None))
    return out



# ------------------------------------------------------------------------------ origin call of an operand
def origin_call(body, op, depth=0):
    """block of the (non-transparent) call that produced the value of `op`, looking through moves, refs,
    field projections, `?`, deref/clone/into and single-field wrappers (`Some(x)`)"""
    from .origins import TRANSPARENT
    if depth > 16 or op is None or op.get('k') not in ('copy', 'move'):
        return None
    l = op['pl']['l']
    ds = body.defs.get(l, [])
    if len(ds) != 1:
        return None
    d = ds[0]
    if d[0] == 'st':
        rv = d[1]
        if rv['k'] in ('use', 'cast'):
            return origin_call(body, rv['o'], depth + 1)
        if rv['k'] in ('ref', 'rawptr'):
            return origin_call(body, {'k': 'copy', 'pl': rv['pl']}, depth + 1)
        if rv['k'] == 'agg' and len(rv['ops']) == 1:
            return origin_call(body, rv['ops'][0], depth + 1)
        return None
    t = d[1]
    nm = callee_path(t)
    if TRANSPARENT.search(nm) and t['args']:
        return origin_call(body, t['args'][0], depth + 1)
    return d[2]


# ------------------------------------------------------------------------------ EXHAUSTIVE-LOOP
def exhaustive_loop(P, fn_qual, allow_exits=0):
    """every `for` loop of F runs until its iterator is exhausted: the only edges leaving a loop are the iterator's
    `None` arm and error returns (no `break` / early `return Ok` that depends on an element)"""
    fn = P.fn(fn_qual)
    body = P.body(fn)
    r = Res()
    heads = [bi for bi, t in body.calls_named(r'Iterator::next$')]
    if not heads:
        # the loop may be written as a consuming adaptor (`iter.for_each(..)`, `try_for_each`, `fold`): it visits every element unless
        # an adaptor in the chain ends the iteration early (`try_*` stops at the first error only, which is an error exit)
        cons = body.calls_named(r'Iterator::(for_each|try_for_each|fold|try_fold)$')
        if not cons:
            raise AnchorMissing('`%s` has no iterator loop' % fn_qual)
        o = Origins(body)
        for bi, t in cons:
            it = o.arg_str(t, 0)
            r.site('%s consuming adaptor @%s over %s' % (fn['qual'], body.ln(bi), it[:80]))
            m = re.search(r'Iterator::(take_while|map_while|take|scan|step_by)\(', it)
            if m:
                r.bad('truncating-adaptor', 'in `%s` the iteration at %s runs over `%s(..)`: it ends at the first element the adaptor stops at, the '
                      'remaining elements are not processed' % (fn['qual'], body.ln(bi), m.group(1)), where=[body.ln(bi)])
        return r
    early = 0
    for h in heads:
        fwd = body.reach([h])
        loop = set(b for b in fwd if h in body.reach(body.succs(b)))
        loop.add(h)
        if len(loop) < 2:
            continue
        r.site('%s loop @%s (%d blocks)' % (fn['qual'], body.ln(h), len(loop)))
        # an adaptor that ends the iteration at an element (`take_while`, `map_while`, `take`, `scan`) is an early exit in disguise
        it = Origins(body).arg_str(body.term(h), 0)
        m = re.search(r'Iterator::(take_while|map_while|take|scan|step_by)\(', it)
        if m:
            r.bad('truncating-adaptor', 'in `%s` the loop at %s iterates over `%s(..)`: the iteration ends at the first element the adaptor stops at, '
                  'the remaining elements are not processed (a `continue` became a `break`)' % (fn['qual'], body.ln(h), m.group(1)), where=[body.ln(h)])
        # the block that switches on the discriminant of next()'s result
        nxt_local = body.term(h)['dest']['l']
        none_exits = set()
        for b in loop:
            t = body.term(b)
            if t['k'] == 'switch':
                for st in body.B[b]['st']:
                    if st['rv']['k'] == 'discr' and st['rv']['pl']['l'] == nxt_local and not st['rv']['pl']['p']:
                        none_exits.add(b)
        for b in loop:
            for s in body.succs(b):
                if s in loop:
                    continue
                if b in none_exits:
                    continue
                # error exits: the successor cannot reach a success return, or is an error-origin block
                if s in body.err_blocks or not body.can_succeed(s):
                    continue
                # drop / cleanup chains that rejoin the loop are inside `loop`; anything else is an early exit
                early += 1
                if early > allow_exits:
                    r.bad('early-exit@%s' % body.ln(h).split(':')[-1] if False else 'early-exit',
                          'in `%s` the loop at %s can be left before the iterator is exhausted (edge at %s): the remaining elements are not processed'
                          % (fn['qual'], body.ln(h), body.ln(b)), where=[body.ln(b), body.ln(h)])
    return r


# ------------------------------------------------------------------------------ structural inventories per source file
_IDENT = re.compile(r'(?<![\w.:#])(?!const\b)([a-z_][a-z0-9_]*)(?=[.,)\s\]}<]|$)')


def _drop_elements(s):
    """`Iterator::next(<anything>)` -> `_`: the element a loop is looking at is as anonymous as a closure parameter"""
    tag = 'Iterator::next('
    while True:
        i = s.find(tag)
        if i < 0:
            return s
        j, depth = i + len(tag), 1
        while j < len(s) and depth:
            depth += s[j] == '('
            depth -= s[j] == ')'
            j += 1
        s = s[:i] + '_' + s[j:]


_PASS_THROUGH = ('Option::ok_or(', 'Option::ok_or_else(', 'Result::map_err(', 'Result::ok(')


def _unwrap_pass_through(s):
    """`Option::ok_or(X, E)` / `ok_or_else(X, f)` / `Result::map_err(X, f)` / `Result::ok(X)` -> X: they hand X through and only say
    what an absent value turns into (`x.ok_or(E)?` and `let Some(..) = x else { return Err(E) }` are one check)"""
    changed = True
    while changed:
        changed = False
        for tag in _PASS_THROUGH:
            i = s.find(tag)
            if i < 0 or (i > 0 and (s[i - 1].isalnum() or s[i - 1] in '_:')):
                continue
            j, depth, first_end = i + len(tag), 1, None
            while j < len(s) and depth:
                c = s[j]
                if c in '([{':
                    depth += 1
                elif c in ')]}':
                    depth -= 1
                elif c == ',' and depth == 1 and first_end is None:
                    first_end = j
                j += 1
            if depth:
                continue
            inner_end = first_end if first_end is not None else j - 1
            s = s[:i] + s[i + len(tag):inner_end] + s[j:]
            changed = True
    return s


def normalise_operand(s):
    """abstract local / parameter names, keep field names, callee names and constants"""
    s = re.sub(r'\{closure:\{closure#\d+\}\}', '{closure}', s)
    s = _drop_elements(s)
    s = _unwrap_pass_through(s)
    s = re.sub(r'(?<![\w.])_\d+\b', '_', s)
    s = _IDENT.sub('_', s)
    s = re.sub(r'promoted\[\d+\]', 'promoted', s)
    if len(s) > 170:
        s = s[:100] + '~' + s[-60:]
    return s


_LEN = re.compile(r'^(?:[\w\[\]<>, ]+::)?len\((.*)\)$')
_EMPTY = re.compile(r'^(?:[\w\[\]<>, ]+::)?is_empty\((.*)\)$')
_QUANT = re.compile(r'^Iterator::(all|any)\(')


def canonical_condition(rel):
    """polarity-free key of a condition: `a != b` and `a == b`, `a < b` and `b <= a`, `c` and `!c`, `is_none` and `is_some`,
    `is_empty()` and `len() == 0` / `len() > 0` share one key (which side of a branch is taken is not visible reliably -- MIR folds
    `!` into the branch targets -- and is the business of the GUARD rules). `iter.all(closure)` / `iter.any(closure)` are not
    keyed: the test lives in the closure, whose result is keyed, and survives a rewrite of the adaptor as a loop."""
    if rel[0] in ('truth', 'not'):
        txt = normalise_operand(rel[1])
        while True:
            if txt.startswith('Not::not(') and txt.endswith(')'):
                txt = txt[len('Not::not('):-1]
            elif txt.startswith('Not(') and txt.endswith(')'):
                txt = txt[4:-1]
            else:
                break
        if txt in ('_', 'const 0', 'const 1') or re.fullmatch(r'[{}|_ const01]+', txt):
            return None        # flags / desugared `&&`/`||` temporaries
        if _QUANT.match(txt):
            return None
        txt = re.sub(r'^Option::is_none\(', 'Option::is_some(', txt)
        txt = re.sub(r'^Result::is_err\(', 'Result::is_ok(', txt)
        m = _EMPTY.match(txt)
        if m:
            return 'len(%s) == const 0' % m.group(1)
        return txt
    a, c = normalise_operand(rel[1]), normalise_operand(rel[2])
    r_ = rel[0]
    for x, y in ((a, c), (c, a)):
        m = _LEN.match(x)
        if m and y == 'const 0':
            return 'len(%s) == const 0' % m.group(1)
    if r_ in ('==', '!='):
        a, c = sorted((a, c))
        return '%s == %s' % (a, c)
    if r_ in ('>', '>='):
        a, c = c, a
        r_ = {'>': '<', '>=': '<='}[r_]
    # `a < b` and its negation `b <= a` are one family
    f1 = '%s %s %s' % (a, r_, c)
    f2 = '%s %s %s' % (c, '<=' if r_ == '<' else '<', a)
    return min(f1, f2)


def fns_in_files(P, files):
    fs = tuple(files)
    out = []
    for fn in P.fns.values():
        loc = fn['loc'].rsplit(':', 1)[0]
        if loc in fs:
            out.append(fn)
    return out


def condition_inventory(P, files):
    """{source file: {normalised condition: count}} for every two-way branch on a comparison / bool in the functions
    (and their closures) defined in `files`; keyed per FILE so that moving code between functions of one file does not matter"""
    out = {}
    hints = {}
    for fn in fns_in_files(P, files):
        if fn.get('mac'):
            continue
        body = P.body(fn)
        gx = None
        # predicates: a closure / function returning bool contributes the comparison(s) that define its result
        if fn['ret'] == 'bool':
            gx = GuardExtractor(body, resolve_upvars=True)
            for d in body.defs.get(0, []):
                rel = None
                if d[0] == 'st' and d[1]['k'] == 'bin':
                    from .guards import CMP
                    if d[1]['op'] in CMP:
                        rel = (CMP[d[1]['op']], gx.o.op_str(d[1]['a']), gx.o.op_str(d[1]['b']))
                elif d[0] == 'st' and d[1]['k'] in ('use', 'un'):
                    o_ = d[1].get('o') or d[1].get('a')
                    if o_ and o_['k'] in ('copy', 'move') and not o_['pl']['p']:
                        rel = gx.cond_of_local(o_['pl']['l'])
                elif d[0] == 'call':
                    nm = callee_path(d[1])
                    if re.search(r'PartialEq::(eq|ne)$|PartialOrd::(lt|le|gt|ge)$', nm):
                        r0 = {'eq': '==', 'ne': '!=', 'lt': '<', 'le': '<=', 'gt': '>', 'ge': '>='}[nm.rsplit('::', 1)[1]]
                        rel = (r0, gx.o.op_str(d[1]['args'][0]), gx.o.op_str(d[1]['args'][1]))
                    else:
                        rel = ('truth', gx.o.def_str(d, 0), '')
                if rel:
                    key = canonical_condition(rel)
                    if key:
                        fl = fn['loc'].rsplit(':', 1)[0]
                        out.setdefault(fl, {})
                        out[fl][key] = out[fl].get(key, 0) + 1
                        hints.setdefault(fl, {}).setdefault(key, set()).add(owner_qual(P, fn))
        for bi, b in enumerate(body.B):
            t = b['term']
            if b.get('cu'):
                continue
            l = None
            if t['k'] == 'switch' and t['d']['k'] in ('copy', 'move') and not t['d']['pl']['p']:
                l = t['d']['pl']['l']
                if body.fn['locals'][l]['ty'] != 'bool' or len(t['ts']) != 1:
                    l = None
            elif t['k'] == 'call' and re.search(r'bool::(then_some|then)$', _nogen(callee_path(t))) and t['args'] and \
                    t['args'][0]['k'] in ('copy', 'move') and not t['args'][0]['pl']['p']:
                l = t['args'][0]['pl']['l']        # `cond.then_some(x).ok_or(E)?` is the same check as `if !cond { return Err(E) }`
            if l is None:
                continue
            if gx is None:
                gx = GuardExtractor(body, resolve_upvars=True)
            rel = gx.cond_of_local(l)
            key = canonical_condition(rel)
            if key is None:
                continue
            fl = fn['loc'].rsplit(':', 1)[0]
            out.setdefault(fl, {})
            out[fl][key] = out[fl].get(key, 0) + 1
            hints.setdefault(fl, {}).setdefault(key, set()).add(owner_qual(P, fn))
    condition_inventory.hints = {f: {k: sorted(v) for k, v in d.items()} for f, d in hints.items()}
    condition_inventory.aliases = _variant_tests(P, files)
    return out


def _variant_tests(P, files):
    """{file: {key: count}} of the `Option::is_some(X)` / `Result::is_ok(X)` keys that the two-way discriminant tests
    (`if let Some(_) = X`, `matches!(X, None)`, `match X {..}`) of the files stand for. Used only to MATCH reviewed
    `is_some()` / `is_none()` conditions that were rewritten as patterns; never part of a baseline."""
    out = {}
    for fn in fns_in_files(P, files):
        if fn.get('mac'):
            continue
        body = P.body(fn)
        o = None
        for bi, b in enumerate(body.B):
            t = b['term']
            if b.get('cu') or t['k'] != 'switch' or t['d']['k'] not in ('copy', 'move') or t['d']['pl']['p']:
                continue
            l = t['d']['pl']['l']
            for d in body.defs.get(l, []):
                if d[0] != 'st' or d[1]['k'] != 'discr':
                    continue
                ty = d[1].get('ty', '')
                m = re.match(r'^&*(?:mut )?(?:std|core)::(option::Option|result::Result)<', ty)
                if not m:
                    continue
                if o is None:
                    o = Origins(body, resolve_upvars=True)
                x = normalise_operand(o.op_str({'k': 'copy', 'pl': d[1]['pl']}))
                key = ('Option::is_some(%s)' if 'Option' in m.group(1) else 'Result::is_ok(%s)') % x
                fl = fn['loc'].rsplit(':', 1)[0]
                out.setdefault(fl, {})
                out[fl][key] = out[fl].get(key, 0) + 1
    return out


STD_MUTATORS = re.compile(r'^(Vec|VecDeque|HashMap|BTreeMap|HashSet|BTreeSet|SmallMap|LargeMap|Option|\[T\])::'
                          r'(resize|truncate|clear|push|push_back|pop_front|pop|insert|remove|remove_entry|retain|extend|take|replace|sort|dedup|drain)$')


def mustpass_inventory(P, files):
    """{fn qual: sorted callees that lie on EVERY success path of the function}; callees = functions of the workspace crates
    and std collection mutators"""
    out = {}
    private_callees = set()
    private_fns = set()
    for fn in fns_in_files(P, files):
        if fn.get('mac') or fn['kind'] == 'Closure':
            continue
        if module_private(fn):
            private_fns.add(fn['qual'])
        body = P.body(fn)
        by_callee = collections.defaultdict(list)
        for bi, t in body.calls():
            cn = callee_name(t)
            c = t.get('callee') or {}
            local = (c.get('res') or {}).get('local') or c.get('local')
            tr = (c.get('trait') or {}).get('trait', '')
            if local or tr.startswith('mls_rs') or STD_MUTATORS.search(cn):
                if re.search(r'(Clone::clone|fmt::|Default::default|::deref(_mut)?$|::from$|::into$|::as_ref$|::borrow)', cn):
                    continue
                by_callee[cn].append(bi)
                cf = P.fns.get(callee_resolved(t)) or P.fns.get(callee_path(t))
                if cf is not None and module_private(cf):
                    private_callees.add(cn)
        if not by_callee:
            continue
        errs = set(body.err_blocks)
        must = []
        for cn, blocks in by_callee.items():
            barriers = set(body.term(b)['t'] for b in blocks if body.term(b)['t'] >= 0)
            reach = body.reach([0], barriers | errs)
            if not any(body.term(x)['k'] == 'return' for x in reach):
                must.append(cn)
        if must:
            out[fn['qual']] = sorted(must)
    # transitive closure through unconditional calls to functions of the same file set: extracting a helper that is itself
    # called unconditionally keeps the set of the caller
    changed = True
    rounds = 0
    while changed and rounds < 6:
        changed = False
        rounds += 1
        for q, lst in out.items():
            cur = set(lst)
            for c in list(cur):
                if c in out and c != q:
                    new = set(out[c]) - cur
                    if new:
                        cur |= new
                        changed = True
            out[q] = sorted(cur)
    # module-private helpers are looked THROUGH (the closure above), not recorded: neither as a function with obligations nor as an
    # obligation of its callers -- inlining, extracting or renaming one leaves the table unchanged
    return {q: [c for c in lst if c not in private_callees] for q, lst in out.items()
            if q not in private_fns and any(c not in private_callees for c in lst)}


def wiring_inventory(P, files):
    """{source file: {"callee#argindex <- normalised origin": count}} for every call to a workspace function in the
    functions (and closures) defined in `files`. Plain locals / parameters (`_`) and closures are not recorded."""
    out = {}
    hints = {}
    for fn in fns_in_files(P, files):
        if fn.get('mac'):
            continue
        body = P.body(fn)
        o = None
        for bi, t in body.calls():
            c = t.get('callee') or {}
            local = (c.get('res') or {}).get('local') or c.get('local')
            tr = (c.get('trait') or {}).get('trait', '')
            if not (local or tr.startswith('mls_rs')):
                continue
            cn = callee_name(t)
            if re.search(r'(Clone::clone|fmt::|Default::default|::deref(_mut)?$|::from$|::into$|::as_ref$|::borrow|Mls(Size|Encode|Decode)::|IntoAnyError)', cn):
                continue
            if o is None:
                o = Origins(body, resolve_upvars=True)
            oq = owner_qual(P, fn)
            for i, a in enumerate(t['args']):
                s = normalise_operand(o.op_str(a))
                if s in ('_', '?') or s.startswith('{closure') or re.fullmatch(r'[_.\d]+', s):
                    continue
                key = '%s#%d <- %s' % (cn, i, s)
                fl = fn['loc'].rsplit(':', 1)[0]
                out.setdefault(fl, {})
                out[fl][key] = out[fl].get(key, 0) + 1
                hints.setdefault(fl, {}).setdefault(key, set()).add(oq)
    wiring_inventory.hints = {f: {k: sorted(v) for k, v in d.items()} for f, d in hints.items()}
    return out


# ------------------------------------------------------------------------------ variant maps (`match e { A => X::P, B => X::Q }`)
_SKIP_ENUM = re.compile(r'(option::Option|result::Result|ops::ControlFlow|task::Poll|cmp::Ordering)\b')


def _adt_for_type(P, ty):
    t = re.sub(r'^&+(mut )?', '', ty)
    t = re.sub(r'<.*', '', t).strip()
    if not t or _SKIP_ENUM.search(t):
        return None
    if t in P.adts:
        return P.adts[t]
    tail = t.split('::')
    cands = [a for k, a in P.adts.items() if k.split('::')[-len(tail):] == tail]
    if len(cands) == 1:
        return cands[0]
    cands = [a for a in cands if a['kind'] == 'Enum']
    return cands[0] if len(cands) == 1 else None


def variant_map_inventory(P, files):
    """{source file: {"E::V => T::W": count}}: for every `match` on an enum E of the workspace whose arms give one value
    (the arms assign the same local, or the return place) an enum variant / string constant, which variant of E yields which
    value. A conversion between two enums that confuses two variants (`NewMember => Sender::NewMemberCommit`) changes a key."""
    out = {}
    hints = {}
    for fn in fns_in_files(P, files):
        if fn.get('mac'):
            continue
        body = P.body(fn)
        for bi, b in enumerate(body.B):
            t = b['term']
            if b.get('cu') or t['k'] != 'switch' or t['d']['k'] not in ('copy', 'move') or t['d']['pl']['p']:
                continue
            adt = None
            for d in body.defs.get(t['d']['pl']['l'], []):
                if d[0] == 'st' and d[1]['k'] == 'discr':
                    adt = _adt_for_type(P, d[1].get('ty', ''))
            if adt is None or adt['kind'] != 'Enum':
                continue
            by_discr = {str(v['discr']): v['name'] for v in adt['variants']}
            arms = {}       # target block -> [variant names]
            for v, tgt in t['ts']:
                arms.setdefault(tgt, []).append(by_discr.get(str(v), '#' + str(v)))
            named = set(n for ns in arms.values() for n in ns)
            o_t = t['o']
            if o_t is not None and o_t >= 0 and body.B[o_t]['term']['k'] != 'unreachable':
                rest = sorted(set(by_discr.values()) - named)
                arms.setdefault(o_t, []).extend(rest if 0 < len(rest) <= 3 else ['_'])
            # values each arm gives: whole-local assignments in the blocks the arm target dominates
            per_arm = {}
            for tgt, names in arms.items():
                if len(body.preds(tgt)) != 1:
                    continue
                vals = {}
                # only PURE mapping arms are keyed: the arm is one straight-line block (no branch, no call) that assigns the value
                # and joins; an arm that computes, checks or calls is not a table entry and is left to the other rules
                if body.B[tgt]['term']['k'] != 'goto':
                    continue
                for st in body.B[tgt]['st']:
                    if st['lhs']['p']:
                        continue
                    v = _variant_value(P, body, st['rv'])
                    if v:
                        vals.setdefault(st['lhs']['l'], set()).add(v)
                per_arm[tgt] = (names, vals)
            # locals that receive a value in at least two arms = the result of the match
            cnt = collections.Counter(l for _, vals in per_arm.values() for l in vals)
            E = adt['path'].split('::')[-1]
            fl = fn['loc'].rsplit(':', 1)[0]
            for tgt, (names, vals) in per_arm.items():
                for l, vs in vals.items():
                    if cnt[l] < 2 or len(vs) != 1:
                        continue
                    key = '%s::%s => %s' % (E, '|'.join(sorted(names)), next(iter(vs)))
                    out.setdefault(fl, {})
                    out[fl][key] = out[fl].get(key, 0) + 1
                    hints.setdefault(fl, {}).setdefault(key, set()).add(owner_qual(P, fn))
    variant_map_inventory.hints = {f: {k: sorted(v) for k, v in d.items()} for f, d in hints.items()}
    return out


def _variant_value(P, body, rv, depth=0):
    if rv['k'] == 'agg' and rv['what'].startswith('adt:'):
        path = rv['what'][4:]
        parts = path.split('::')
        if len(parts) >= 2:
            en, var = parts[-2], parts[-1]
            if en in ('Result', 'Option', 'ControlFlow') and rv['ops'] and depth < 2:
                op = rv['ops'][0]
                if op['k'] in ('copy', 'move') and not op['pl']['p']:
                    ds = body.defs.get(op['pl']['l'], [])
                    if len(ds) == 1 and ds[0][0] == 'st':
                        inner = _variant_value(P, body, ds[0][1], depth + 1)
                        if inner:
                            return '%s(%s)' % (var, inner)
                return None
            owner = '::'.join(parts[:-1])
            adt = P.adts.get(owner)
            if adt is not None and adt['kind'] == 'Enum':
                return '%s::%s' % (en, var)
        return None
    if rv['k'] == 'use' and rv['o']['k'] == 'const':
        c = rv['o']['v']
        ty = c.get('ty', '')
        if re.search(r'\bstr\b|\[u8', ty):
            return 'const ' + str(c.get('c'))[:60]
        if '::' in str(c.get('c', '')) and re.match(r'^[\w:]+$', str(c.get('c'))) and ty not in ('bool', '()'):
            # unit-like variant / associated constant written as a path
            return 'const ' + '::'.join(str(c['c']).split('::')[-2:])
    return None
