"""Failure-atomicity / mod-set prototype.

der[local] : set of (param, state_path, holder_path)
   the local holds (somewhere under holder_path inside its own value) a reference to
   state rooted at `param` at access path `state_path`.
"""
import sys, re, collections, json
from .facts import Body, is_result_ty


def succs(term):
    return Body._succs(term)


def reach_from(fn, starts):
    seen = set(starts)
    st = list(starts)
    B = fn['blocks']
    while st:
        b = st.pop()
        for s in succs(B[b]['term']):
            if s not in seen:
                seen.add(s)
                st.append(s)
    return seen


def is_result(fn):
    return is_result_ty(fn['ret'])

MAXDEPTH = 4
STORAGE_RX = re.compile(r'(GroupStateStorage|KeyPackageStorage|PreSharedKeyStorage)::')
READONLY = re.compile(
    r"(::as_mut$|::as_deref_mut$|::get_mut$|::iter_mut$|::deref_mut$|::as_mut_slice$|::last_mut$|::first_mut$|"
    r"::values_mut$|::index_mut$|::borrow_mut$|Try::branch$|::ok_or$|::ok_or_else$|::unwrap$|::expect$|::ok$|"
    r"::into_iter$|::iter$|::as_ref$|::deref$|::borrow$|::by_ref$|::enumerate$|::zip$|::rev$|::skip$|::step_by$|"
    r"::filter$|::into$|::from$|::transpose$|::map_err$|::unwrap_or$|::and_then$|::get$|::as_slice$|"
    r"::len$|::is_empty$|::is_none$|::is_some$|::clone$|::eq$|::ne$|::contains$|::to_vec$|::first$|::last$)")
HIGHER = re.compile(r"(::map$|::and_then$|::for_each$|::try_for_each$|::filter_map$|::find$|::find_map$|::any$|::all$|"
                    r"::retain$|::retain_mut$|::map_or$|::map_or_else$|::then$|::fold$|::try_fold$|::position$|"
                    r"::or_else$|::unwrap_or_else$|::inspect$|::flat_map$|::take_while$|::map_while$|::filter$|::ok_or_else$)")


def fields_of(proj, is_closure_env=False):
    out = []
    skip_next_numeric = False
    for e in proj:
        if e == '*':
            continue
        if e.startswith('as:'):
            skip_next_numeric = True
            continue
        if e.startswith('['):
            continue
        if e.startswith('.'):
            name = e
            if skip_next_numeric and name[1:].isdigit():
                skip_next_numeric = False
                continue
            skip_next_numeric = False
            out.append(name)
    return tuple(out)


def cut(p):
    return tuple(p[:MAXDEPTH])


class Summary:
    __slots__ = ('mod', 'dirty', 'retder', 'fallible', 'sfall')

    def __init__(self):
        self.mod = collections.defaultdict(set)      # param -> set(path)
        self.dirty = collections.defaultdict(set)    # param -> set((path, writer, failing))
        self.retder = set()                          # set((param, state_path, holder_path))
        self.fallible = False
        self.sfall = False

    def sig(self):
        return (tuple(sorted((k, tuple(sorted(v))) for k, v in self.mod.items())),
                tuple(sorted((k, tuple(sorted(v))) for k, v in self.dirty.items())),
                tuple(sorted(self.retder)), self.fallible, self.sfall)


class FA:
    def __init__(self, facts, mode='all'):
        self.mode = mode
        self.F = facts
        self.memo = {}
        self.inprog = set()
        self.changed = False
        self.unresolved = collections.Counter()

    # ---------------------------------------------------------------- call resolution
    def resolve(self, fn, term, env):
        c = term.get('callee')
        if not c:
            return None, None, 'indirect'
        path = c['path']
        # closure invocation through Fn* traits
        if c['trait'] and c['trait']['trait'].startswith('std::ops::Fn') and c['gargs']:
            h = c['gargs'][0]['h']
            if h.startswith('closure:'):
                k = self.F.lookup(h[8:])
                if k:
                    return k, dict(env), 'closure-call'
        res = c.get('res')
        if res:
            k = self.F.lookup(res['path'], fn['crate'])
            if k:
                callee = self.F.fns[k]
                nenv = {}
                for name, ga in zip(callee['generics'], res['gargs']):
                    h = ga['h']
                    if h.startswith('param:'):
                        h = env.get(h[6:], h)
                    nenv[name] = h
                return k, nenv, 'resolved'
            # resolved to foreign item
            if not c['trait'] or not (c['gargs'] and c['gargs'][0]['h'].startswith('param:')):
                return None, None, 'foreign:' + res['path']
        if c['trait']:
            tr = c['trait']
            h = c['gargs'][0]['h'] if c['gargs'] else ''
            if h.startswith('param:'):
                h = env.get(h[6:], h)
            if h.startswith('adt:') or h.startswith('other:') or h.startswith('closure:'):
                k = self.F.impls.get((tr['trait'], h, tr['name']))
                if k:
                    return k, {}, 'impl'
                k = self.F.defaults.get((tr['trait'], tr['name']))
                if k:
                    return k, {'Self': h}, 'default'
            # provider / unknown
            self.unresolved[tr['trait'] + '::' + tr['name'] + ' on ' + h] += 1
            return None, None, 'opaque:' + tr['trait'] + '::' + tr['name']
        k = self.F.lookup(path, fn['crate'])
        if k:
            return k, {}, 'plain'
        return None, None, 'foreign:' + path

    # ---------------------------------------------------------------- summaries
    def summary(self, key, env):
        envk = tuple(sorted((k, v) for k, v in env.items() if v.startswith('adt:')))
        mk = (key, envk)
        if mk in self.inprog:
            return self.memo.get(mk, Summary())
        if mk in self.memo and mk in self.done:
            return self.memo[mk]
        self.inprog.add(mk)
        s = self.analyse(key, dict(envk))
        self.inprog.discard(mk)
        old = self.memo.get(mk)
        if old is None or old.sig() != s.sig():
            self.changed = True
        self.memo[mk] = s
        self.done.add(mk)
        return s

    def run(self, roots):
        """roots: list of (key, env). Iterate to a global fixpoint."""
        for it in range(8):
            self.changed = False
            self.done = set()
            out = [self.summary(k, e) for k, e in roots]
            if not self.changed:
                break
        return out

    def analyse(self, key, env):
        F = self.F
        fn = F.fns[key]
        B = fn['blocks']
        argc = fn['argc']
        is_closure = fn['kind'] == 'Closure'
        der = collections.defaultdict(set)
        for i in range(1, argc + 1):
            der[i].add((i, (), ()))
        closure_local = {}
        S = Summary()
        # pre-resolve calls
        calls = {}
        for bi, b in enumerate(B):
            t = b['term']
            if t['k'] == 'call':
                calls[bi] = self.resolve(fn, t, env)

        def proj(place):
            """derivations visible through `place`."""
            base = place['l']
            Fs = fields_of(place['p'])
            out = []
            for (a, p, h) in der.get(base, ()):
                if len(Fs) >= len(h) and Fs[:len(h)] == h:
                    out.append(('state', a, cut(p + Fs[len(h):]), ()))
                elif h[:len(Fs)] == Fs:
                    out.append(('holder', a, p, h[len(Fs):]))
            return out

        def op_ders(op):
            if op['k'] in ('copy', 'move'):
                return proj(op['pl'])
            return []

        def add(l, item):
            if item not in der[l]:
                der[l].add(item)
                return True
            return False

        # ---- propagate derivations (flow-insensitive fixpoint)
        changed = True
        rounds = 0
        while changed and rounds < 50:
            changed = False
            rounds += 1
            for bi, b in enumerate(B):
                for st in b['st']:
                    lhs, rv = st['lhs'], st['rv']
                    k = rv['k']
                    new = []
                    if k == 'ref':
                        if rv['mut']:
                            for (kind, a, p, h) in proj(rv['pl']):
                                new.append((a, p, h))
                    elif k == 'use' or k == 'cast' or k == 'repeat':
                        for (kind, a, p, h) in op_ders(rv['o']):
                            new.append((a, p, h))
                        o = rv['o']
                        if o['k'] in ('copy', 'move') and not o['pl']['p'] and o['pl']['l'] in closure_local and not lhs['p']:
                            closure_local[lhs['l']] = closure_local[o['pl']['l']]
                    elif k == 'agg':
                        what = rv['what']
                        names = rv['names']
                        if what.startswith('closure:') and not lhs['p']:
                            ck = F.lookup(what[8:])
                            if ck:
                                closure_local[lhs['l']] = ck
                        for j, o in enumerate(rv['ops']):
                            nm = '.' + (names[j] if j < len(names) else str(j))
                            for (kind, a, p, h) in op_ders(o):
                                new.append((a, p, (nm,) + h))
                    lf = fields_of(lhs['p'])
                    for (a, p, h) in new:
                        if '*' in lhs['p']:
                            continue  # storing a reference into state: ignore for derivation
                        if add(lhs['l'], (a, p, lf + h)):
                            changed = True
                t = b['term']
                if t['k'] == 'call':
                    ck, cenv, how = calls[bi]
                    dest = t['dest']
                    dl = dest['l']
                    dty = fn['locals'][dl]['ty'] if dl < len(fn['locals']) else ''
                    argd = [op_ders(o) for o in t['args']]
                    if ck:
                        cs = self.summary(ck, cenv)
                        for (cp, spath, hpath) in cs.retder:
                            j = cp - 1
                            if how == 'closure-call':
                                # arg0 is the closure env, arg1 the tuple of arguments
                                j = 0 if cp == 1 else 1
                            if j < len(argd):
                                for (kind, a, p, h) in argd[j]:
                                    if kind == 'state':
                                        if add(dl, (a, cut(p + spath), fields_of(dest['p']) + hpath)):
                                            changed = True
                                    else:
                                        if spath[:len(h)] == h:
                                            if add(dl, (a, cut(p + spath[len(h):]), fields_of(dest['p']) + hpath)):
                                                changed = True
                    else:
                        carries = bool(re.search(r"&('\w+ )?mut ", dty)) or any(('adt:' + m) in fn['locals'][dl]['head'] for m in ())
                        head = fn['locals'][dl]['head']
                        if head.startswith('adt:') and head[4:] in F.mutref_adts:
                            carries = True
                        name = how.split(':', 1)[1] if ':' in how else ''
                        if carries or READONLY.search(name) or HIGHER.search(name):
                            if re.search(r"&('\w+ )?mut |IterMut|Option<&|mut", dty) or carries:
                                for ad in argd:
                                    for (kind, a, p, h) in ad:
                                        if kind == 'state':
                                            if add(dl, (a, p, fields_of(dest['p']))):
                                                changed = True
        S.retder = set(der.get(0, ()))

        # ---- fallible points
        FP = []  # (block, idx) idx: stmt index or 10**9 for terminator
        TERM = 10 ** 9
        if is_result(fn) or fn['kind'] == 'Closure' and 'Result<' in fn['ret']:
            res_defs = collections.defaultdict(list)
            for bi, b in enumerate(B):
                t = b['term']
                if t['k'] == 'call' and not t['dest']['p']:
                    res_defs[t['dest']['l']].append(bi)
            for bi, b in enumerate(B):
                for si, st in enumerate(b['st']):
                    if st['lhs']['l'] == 0 and not st['lhs']['p']:
                        rv = st['rv']
                        if rv['k'] == 'agg' and rv['what'].endswith('Result::Err'):
                            FP.append((bi, si, 'Err(..)'))
                        elif rv['k'] == 'use' and rv['o']['k'] in ('copy', 'move') and not rv['o']['pl']['p']:
                            for db in res_defs.get(rv['o']['pl']['l'], ()):
                                FP.append((db, TERM, 'returned result of call'))
                t = b['term']
                if t['k'] == 'call' and t['dest']['l'] == 0 and not t['dest']['p']:
                    c = t.get('callee')
                    nm = (c or {}).get('path', '')
                    if nm.endswith('FromResidual::from_residual'):
                        FP.append((bi, TERM, '?'))
                    else:
                        FP.append((bi, TERM, 'tail ' + nm))
        S.fallible = bool(FP)
        # attribute each `?` site to the call whose result it tests
        preds = collections.defaultdict(set)
        for bi, b in enumerate(B):
            for sx in succs(b['term']):
                preds[sx].add(bi)
        res_defs2 = collections.defaultdict(list)
        for bi, b in enumerate(B):
            t = b['term']
            if t['k'] == 'call' and not t['dest']['p']:
                res_defs2[t['dest']['l']].append(bi)
        fp_origin = collections.defaultdict(set)   # fp block -> set(call blocks)

        def trace_back(l0):
            """call blocks whose result reaches local l0 through moves and Result/Option adaptors"""
            locs = {l0}
            for _ in range(6):
                for bb in B:
                    for st in bb['st']:
                        if st['lhs']['l'] in locs and not st['lhs']['p'] and st['rv']['k'] == 'use' and st['rv']['o']['k'] in ('copy', 'move') and not st['rv']['o']['pl']['p']:
                            locs.add(st['rv']['o']['pl']['l'])
                    t2 = bb['term']
                    if t2['k'] == 'call' and t2['dest']['l'] in locs and not t2['dest']['p']:
                        nm2 = (t2.get('callee') or {}).get('path', '')
                        if (re.match(r'std::(result::Result|option::Option)::<', nm2) or nm2.endswith('IntoFuture::into_future')) and t2['args']:
                            a1 = t2['args'][0]
                            if a1['k'] in ('copy', 'move') and not a1['pl']['p']:
                                locs.add(a1['pl']['l'])
            out = set()
            for l in locs:
                for db in res_defs2.get(l, ()):
                    nm3 = (B[db]['term'].get('callee') or {}).get('path', '')
                    if re.match(r'std::(result::Result|option::Option)::<', nm3):
                        continue
                    out.add(db)
            return out

        for (fb, fi, why) in FP:
            if why == '?':
                for sb in preds.get(fb, ()):
                    for tb in preds.get(sb, ()):
                        tt = B[tb]['term']
                        if tt['k'] == 'call' and (tt.get('callee') or {}).get('path', '').endswith('Try::branch'):
                            a0 = tt['args'][0]
                            if a0['k'] in ('copy', 'move') and not a0['pl']['p']:
                                fp_origin[fb] |= trace_back(a0['pl']['l'])
            elif why.startswith('tail') or why.startswith('returned'):
                fp_origin[fb].add(fb)
                tt = B[fb]['term']
                nm = (tt.get('callee') or {}).get('path', '')
                if tt['k'] == 'call' and re.match(r'std::(result::Result|option::Option)::<', nm) and tt['args']:
                    a0 = tt['args'][0]
                    if a0['k'] in ('copy', 'move') and not a0['pl']['p']:
                        fp_origin[fb] |= trace_back(a0['pl']['l'])
        # fault-restricted mode (C15): keep only failure points that test the result of a storage
        # call, directly or through a local callee that is itself storage-fallible
        if self.mode == 'storage':
            keep = []
            for (fb, fi, why) in FP:
                ok = False
                for ob in fp_origin.get(fb, ()):
                    ck, cenv, how = calls.get(ob, (None, None, ''))
                    if ck:
                        if self.summary(ck, cenv).sfall:
                            ok = True
                    elif how.startswith('opaque:') and STORAGE_RX.search(how):
                        ok = True
                if ok:
                    keep.append((fb, fi, why))
            FP = keep
            S.sfall = bool(FP)
        # reachability cache
        rcache = {}

        def after(bi):
            if bi not in rcache:
                rcache[bi] = reach_from(fn, succs(B[bi]['term']))
            return rcache[bi]

        def can_fail_after(bi, idx, call_event=False):
            r = after(bi)
            for (fb, fi, why) in FP:
                if call_event and bi in fp_origin.get(fb, ()):
                    # this failure point tests the result of the very call that wrote
                    # (the callee's own failure is accounted for in its DIRTY set)
                    # ... unless the call sits in a loop and can be reached again
                    if bi not in r:
                        continue
                if fb in r:
                    return (fb, why)
                if fb == bi and fi > idx:
                    return (fb, why)
            return None

        def event(a, path, bi, idx, writer, how, call_event=False):
            path = cut(path)
            S.mod[a].add((path, writer, how))
            cf = can_fail_after(bi, idx, call_event)
            if cf:
                fb, why = cf
                S.dirty[a].add((path, writer, key, '%s ; then may fail: %s@%s in %s' % (how, why, B[fb]['ln'], key.split('::')[-1])))

        # ---- events
        for bi, b in enumerate(B):
            for si, st in enumerate(b['st']):
                lhs = st['lhs']
                if '*' in lhs['p'] or (lhs['l'] <= argc and lhs['l'] >= 1 and lhs['p'] and is_closure is False and False):
                    for (kind, a, p, h) in proj(lhs):
                        if kind == 'state':
                            event(a, p, bi, si, key, 'assign@' + st['ln'])
            t = b['term']
            if t['k'] != 'call':
                continue
            ck, cenv, how = calls[bi]
            argd = [op_ders(o) for o in t['args']]
            # closure arguments
            cl_args = []
            for j, o in enumerate(t['args']):
                if o['k'] in ('copy', 'move') and not o['pl']['p'] and o['pl']['l'] in closure_local:
                    cl_args.append((j, closure_local[o['pl']['l']]))
            if ck:
                cs = self.summary(ck, cenv)
                for j, ad in enumerate(argd):
                    cp = j + 1
                    if how == 'closure-call':
                        cp = 1 if j == 0 else 2
                    for (kind, a, p, h) in ad:
                        for (q, ow, ohow) in cs.mod.get(cp, ()):
                            mp = None
                            if kind == 'state':
                                mp = p + q
                            elif q[:len(h)] == h:
                                mp = p + q[len(h):]
                            if mp is not None:
                                # write happened inside callee, callee returned; failure after?
                                cf = can_fail_after(bi, TERM, True)
                                S.mod[a].add((cut(mp), ow, ohow))
                                if cf:
                                    S.dirty[a].add((cut(mp), ow, key, '%s ; then may fail: %s@%s in %s' % (ohow, cf[1], B[cf[0]]['ln'], key.split('::')[-1])))
                        if is_result(fn) or fn['kind'] == 'Closure':
                            for (q, w, ff, why) in cs.dirty.get(cp, ()):
                                mp = None
                                if kind == 'state':
                                    mp = p + q
                                elif q[:len(h)] == h:
                                    mp = p + q[len(h):]
                                if mp is not None:
                                    S.dirty[a].add((cut(mp), w, ff, why))
                # closures passed to local higher-order fns: assume they may be invoked
                for (j, clk) in cl_args:
                    self._closure_events(S, fn, key, bi, b, clk, env, argd, j, t, event, can_fail_after)
            else:
                name = how.split(':', 1)[1] if ':' in how else how
                opaque = how.startswith('opaque:')
                for j, ad in enumerate(argd):
                    o = t['args'][j]
                    if o['k'] not in ('copy', 'move'):
                        continue
                    oty = fn['locals'][o['pl']['l']]['ty'] if not o['pl']['p'] else ''
                    for (kind, a, p, h) in ad:
                        if kind != 'state':
                            continue
                        if READONLY.search(name) or HIGHER.search(name):
                            continue
                        if oty and not re.match(r"&('\w+ )?mut ", oty):
                            continue  # passing a value / shared ref
                        event(a, p, bi, TERM - 1, key, ('opaque ' if opaque else 'foreign ') + name + '@' + b['ln'], True)
                for (j, clk) in cl_args:
                    self._closure_events(S, fn, key, bi, b, clk, env, argd, j, t, event, can_fail_after)
        # closure creation: captured derived refs => the closure may write through them when invoked.
        # handled at the call sites that receive the closure (above) via closure env derivation.
        return S

    def _closure_events(self, S, fn, key, bi, b, clk, env, argd, j, t, event, can_fail_after):
        cs = self.summary(clk, env)
        TERM = 10 ** 9
        # param 1 = closure env : the closure local itself is arg j
        for (kind, a, p, h) in argd[j]:
            for (q, ow, ohow) in cs.mod.get(1, ()):
                mp = None
                if kind == 'state':
                    mp = p + q
                elif q[:len(h)] == h:
                    mp = p + q[len(h):]
                if mp is not None:
                    event(a, mp, bi, TERM - 1, ow, ohow)
            for (q, w, ff, why) in cs.dirty.get(1, ()):
                mp = None
                if kind == 'state':
                    mp = p + q
                elif q[:len(h)] == h:
                    mp = p + q[len(h):]
                if mp is not None:
                    S.dirty[a].add((cut(mp), w, ff, why))
        # params >= 2 : closure arguments may be any other derived argument of the call
        for jj, ad in enumerate(argd):
            if jj == j:
                continue
            for (kind, a, p, h) in ad:
                if kind != 'state':
                    continue
                for cp in list(cs.mod.keys()):
                    if cp < 2:
                        continue
                    for (q, ow, ohow) in cs.mod[cp]:
                        event(a, p + q, bi, TERM - 1, ow, ohow)


