"""Def-use origins: print where a value comes from as an expression over parameters,
call results and constants, looking through moves, copies, reborrows, `?`, deref/clone/into."""
import re
from .facts import callee_path, callee_name, callee_resolved, _strip_generics, short_path, module_private

TRANSPARENT = re.compile(
    r'(::deref$|::deref_mut$|::clone$|::into$|::from$|::as_ref$|::as_mut$|::borrow$|::borrow_mut$|::as_slice$|'
    r'::as_bytes$|::to_vec$|Try::branch$|::as_deref$|::as_deref_mut$|::copied$|::cloned$|::to_owned$|'
    r'::into_iter$|::iter$|::iter_mut$|::unwrap$|::expect$|::into_inner$|::as_str$|::to_string$|::into_vec$|'
    r'IntoFuture::into_future$|::new_unchecked$|::by_ref$)')
NOISE_VARIANTS = {'Continue', 'Break', 'Some', 'Ok', 'Err', 'None'}


class Origins:
    INLINE_PRIVATE = True       # print a call to a module-private, infallible helper as the origin of what the helper returns

    def __init__(self, body, max_depth=12, resolve_upvars=False):
        self.param_subst = None
        self._inl_depth = 0
        self.b = body
        self.fn = body.fn
        self.max_depth = max_depth
        self._memo = {}
        # resolve_upvars: print a captured variable of a closure as its origin in the enclosing function (instead of its name),
        # so that `xs.iter().all(|x| f(x, limit))` and `for x in xs { if !f(x, limit) {..} }` print `limit` alike
        self.resolve_upvars = resolve_upvars
        self._upvar_memo = {}

    def _parent_origin(self, field):
        if field in self._upvar_memo:
            return self._upvar_memo[field]
        out = None
        try:
            key = self.fn['key']
            pkey = key.rsplit('::{closure#', 1)[0]
            P = self.b.P
            pfn = P.fns.get(pkey)
            if pfn is not None and pkey != key:
                pbody = P.body(pfn)
                po = getattr(pbody, '_upvar_origins', None)
                if po is None:
                    po = Origins(pbody, self.max_depth, resolve_upvars=True)
                    pbody._upvar_origins = po
                idx = int(field[1:])
                for b in pbody.B:
                    if b.get('cu'):
                        continue
                    for st in b['st']:
                        rv = st['rv']
                        if rv['k'] == 'agg' and rv['what'] == 'closure:' + key and idx < len(rv['ops']):
                            out = po.op_str(rv['ops'][idx])
        except Exception:
            out = None
        self._upvar_memo[field] = out
        return out

    def place_str(self, pl, depth=0, seen=()):
        base = self.local_str(pl['l'], depth, seen)
        out = []
        proj = pl['p']
        if pl['l'] == 1 and self.b.upvars:
            # closure environment: `_1.N` is the N-th captured variable
            fs = [e for e in proj if e.startswith('.')]
            if fs and fs[0] in self.b.upvars:
                base = self.b.upvars[fs[0]]
                if self.resolve_upvars:
                    base = self._parent_origin(fs[0]) or base
                i = proj.index(fs[0])
                proj = proj[i + 1:]
        for e in proj:
            if e.startswith('.') and not e[1:].isdigit():
                out.append(e)
            elif e.startswith('.') and e[1:].isdigit():
                out.append(e)
            elif e.startswith('as:'):
                v = e[3:]
                if v not in NOISE_VARIANTS:
                    out.append('<%s>' % v)
                else:
                    out.append('<~>')
            elif e.startswith('['):
                out.append('[]')
        s = ''.join(out)
        # `(x as Continue).0` / `(x as Some).0` -> x
        s = re.sub(r'<~>\.\d+', '', s)
        s = s.replace('<~>', '')
        return base + s

    def local_str(self, l, depth=0, seen=()):
        if depth > self.max_depth or l in seen:
            return self.b.names.get(l, '_%d' % l)
        if 1 <= l <= self.b.argc:
            if self.param_subst is not None and l in self.param_subst:
                return self.param_subst[l]
            nm = self.b.names.get(l)
            if nm is None:
                nm = 'arg%d' % l
            return nm
        ds = self.b.defs.get(l, [])
        if not ds:
            return self.b.names.get(l, '_%d' % l)
        if len(ds) == 1:
            s = self.def_str(ds[0], depth, seen + (l,))
            # an accumulator (`let mut v = Vec::new()` filled through &mut): its name says more than its initialiser
            if l in self.b.names and re.match(r'^([\w\[\]]+::)?(new|default|with_capacity)\([^()]*\)$', s):
                return self.b.names[l]
            return s
        alts = sorted(set(self.def_str(d, depth + 1, seen + (l,)) for d in ds))
        if len(alts) == 1:
            if l in self.b.names and re.match(r'^([\w\[\]]+::)?(new|default|with_capacity)\([^()]*\)$', alts[0]):
                return self.b.names[l]
            return alts[0]
        if len(alts) > 4:
            return self.b.names.get(l, '{' + '|'.join(alts[:4]) + '|..}')
        return '{' + '|'.join(alts) + '}'

    def op_str(self, o, depth=0, seen=()):
        k = o['k']
        if k in ('copy', 'move'):
            return self.place_str(o['pl'], depth, seen)
        if k == 'const':
            v = o['v']
            if 'fn' in v:
                return 'fn:' + short_path(v['fn'])
            if v.get('v') not in (None, ''):
                return 'const ' + v['v']
            return 'const ' + v['c'].replace('const ', '')
        return '?'

    def def_str(self, d, depth, seen=()):
        kind = d[0]
        if kind == 'st':
            rv = d[1]
            k = rv['k']
            if k in ('use', 'cast', 'repeat'):
                return self.op_str(rv['o'], depth, seen)
            if k in ('ref', 'rawptr'):
                return self.place_str(rv['pl'], depth, seen)
            if k == 'bin':
                return '(%s %s %s)' % (self.op_str(rv['a'], depth, seen), rv['op'], self.op_str(rv['b'], depth, seen))
            if k == 'un':
                return '%s(%s)' % (rv['op'], self.op_str(rv['a'], depth, seen))
            if k == 'agg':
                what = rv['what']
                if what.startswith('adt:'):
                    segs = _strip_generics(what[4:]).split('::')
                    name = '::'.join(segs[-2:])
                    if depth <= 5:
                        names = rv.get('names') or []
                        parts = []
                        for j, o in enumerate(rv['ops'][:8]):
                            nm = names[j] if j < len(names) else str(j)
                            parts.append('%s: %s' % (nm, self.op_str(o, depth + 2, seen)))
                        return '%s{%s}' % (name, ', '.join(parts))
                    return name + '{..}'
                if what.startswith('closure:'):
                    return '{closure:%s}' % what.split('::')[-1]
                if what == 'tuple':
                    return '(' + ', '.join(self.op_str(o, depth + 1, seen) for o in rv['ops'][:6]) + ')'
                if what == 'array':
                    return '[' + ', '.join(self.op_str(o, depth + 1, seen) for o in rv['ops'][:6]) + ']'
                return what
            if k == 'discr':
                return 'discr(%s)' % self.place_str(rv['pl'], depth, seen)
            return k
        t = d[1]
        name = callee_path(t)
        if TRANSPARENT.search(name) and t['args']:
            return self.op_str(t['args'][0], depth, seen)
        inl = self._inline_private(t, depth, seen)
        if inl is not None:
            return inl
        cn = callee_name(t) or '?'
        args = ', '.join(self.op_str(a, depth + 1, seen) for a in t['args'][:5])
        return '%s(%s)' % (cn, args)

    def _inline_private(self, t, depth, seen):
        """`helper(a, b)` -> origin of the helper's return value with its parameters replaced by the origins of a, b -- only for
        helpers visible in one module only, infallible (no Result / Option), small and non-recursive. Extracting such a helper from a
        function, or inlining it back, leaves the origin strings of the callers unchanged."""
        if not Origins.INLINE_PRIVATE or self._inl_depth >= 2 or depth > 6:
            return None
        try:
            P = self.b.P
            f = P.fns.get(callee_resolved(t)) or P.fns.get(callee_path(t))
            if f is None or f is self.fn or f['kind'] == 'Closure' or not module_private(f) or len(f['blocks']) > 60:
                return None
            fallible = bool(re.match(r'^(std|core)::result::Result<', f['ret']))
            if f['argc'] != len(t['args']) or re.match(r'^(std|core)::option::Option<', f['ret']) or f['ret'] in ('()', 'bool'):
                return None
            args = [self.op_str(a, depth + 1, seen) for a in t['args']]
            sub = Origins(P.body(f), self.max_depth, resolve_upvars=self.resolve_upvars)
            sub._inl_depth = self._inl_depth + 1
            marks = ['\x00%d\x00' % i for i in range(len(args))]
            sub.param_subst = {i + 1: marks[i] for i in range(len(args))}
            s = sub.local_str(0, depth + 1)
            if not s or len(s) > 400 or re.fullmatch(r'_\d+', s):
                return None
            # only when nothing is lost: every argument shows up in what the helper returns (a helper that BRANCHES on an argument and
            # returns constants keeps its call form)
            if any(m not in s for m in marks):
                return None
            if fallible:
                # a fallible helper is looked through only when its success value is one expression: `Ok(x)` as the last thing it does
                # (`?` at the call site hands x on, exactly as if the body had been written in place)
                if not (s.startswith('Result::Ok{0: ') and s.endswith('}') and '|Result::' not in s and 'Result::Err' not in s):
                    return None
                s = s[len('Result::Ok{0: '):-1]
            for m, a in zip(marks, args):
                s = s.replace(m, a)
            return s if len(s) <= 600 else None
        except Exception:
            return None

    def arg_str(self, term, i):
        if i >= len(term['args']):
            return ''
        return self.op_str(term['args'][i])

    def all_args(self, term):
        return [self.op_str(a) for a in term['args']]
