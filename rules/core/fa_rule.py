"""FAIL-ATOMIC / FRAME rule wrappers around the interprocedural mod-set / dirty-set analysis (fa.py)."""
import collections
import re

from .engine import Res
from .fa import FA

_FA_CACHE = {}


def fa_for(P, mode='all'):
    k = (id(P), mode)
    if k not in _FA_CACHE:
        _FA_CACHE[k] = FA(P, mode)
    return _FA_CACHE[k]


def _q(P, key):
    f = P.fns.get(key)
    return f['qual'] if f else key


def run_entries(P, entries, mode='all'):
    """entries: list of qual names. Returns {qual: Summary} after a joint fixpoint."""
    fa = fa_for(P, mode)
    roots = [(P.fn(q)['key'], {}) for q in entries]
    outs = fa.run(roots)
    return dict(zip(entries, outs)), fa


def dirty_report(P, summary, param=1, under=None):
    """group DIRTY tuples of `param` by (path, writer, failing function)"""
    agg = collections.defaultdict(list)
    for (p, w, ff, why) in summary.dirty.get(param, ()):
        path = ''.join(p).lstrip('.')
        if under is not None and not any(path == u or path.startswith(u + '.') for u in under):
            continue
        agg[(path, _q(P, w), _q(P, ff))].append(why)
    return agg


def mod_paths(P, summary, param=1, under=None):
    out = collections.defaultdict(set)
    for (p, w, how) in summary.mod.get(param, ()):
        path = ''.join(p).lstrip('.')
        if under is not None and not any(path == u or path.startswith(u + '.') for u in under):
            continue
        out[path].add(_q(P, w))
    return out


def fail_atomic(P, entry, summary, exempt, under=None, label=None):
    """FAIL-ATOMIC(entry): DIRTY(entry, self) minus reasoned exemptions must be empty.
    exempt: {(path_regex, writer_regex): reason}"""
    r = Res()
    rep = dirty_report(P, summary, 1, under)
    mods = mod_paths(P, summary, 1, under)
    r.detail = {'state_paths_written': sorted(mods)[:40], 'n_paths_written': len(mods), 'exemptions_used': []}
    for path in sorted(mods):
        r.site('%s may write %s (in %s)' % (entry, path, ', '.join(sorted(mods[path])[:3])))
    rep2 = collections.defaultdict(lambda: (set(), []))
    for (path, w, ff), whys in rep.items():
        rep2[(path, w)][0].add(ff)
        rep2[(path, w)][1].extend(whys)
    for (path, w), (ffs, whys) in sorted(rep2.items()):
        ff = ', '.join(sorted(ffs))
        ex = None
        for (prx, wrx), reason in exempt.items():
            if re.search(prx, path) and re.search(wrx, w):
                ex = reason
                break
        if ex:
            r.detail['exemptions_used'].append('%s / %s: %s' % (path, w, ex))
            continue
        whys = sorted(set(whys))
        r.bad('path=%s|writer=%s' % (path, w),
              '`%s` is not failure-atomic: `%s` is written in `%s` and a later step in `%s` can still return an error (%s)'
              % (label or entry, path, w, ff, whys[0]), where=whys[:4])
    return r


def frame(P, entry, summary, allowed, under=None):
    """FRAME(entry): the transitive mod-set on the receiver is within `allowed` path prefixes"""
    r = Res()
    mods = mod_paths(P, summary, 1, under)
    for path, writers in sorted(mods.items()):
        r.site('%s writes %s (in %s)' % (entry, path, ', '.join(sorted(writers)[:3])))
        if not any(path == a or path.startswith(a + '.') or re.fullmatch(a, path) for a in allowed):
            r.bad('path=%s' % path, '`%s` may write `%s` (in %s), which is outside its frame %s'
                  % (entry, path, ', '.join(sorted(writers)[:3]), sorted(allowed)))
    return r


def fail_atomic_grouped(P, entries, sums, exempt, under_map=None):
    """FAIL-ATOMIC over a set of entries, reported per (state path, writer): one violation names all entries in which the
    write can be followed by an error return. Returns {(path, writer): Res} plus a Res for clean bookkeeping."""
    groups = collections.defaultdict(lambda: {'entries': set(), 'ffs': set(), 'whys': []})
    used = []
    for e in entries:
        under = (under_map or {}).get(e)
        rep = dirty_report(P, sums[e], 1, under)
        for (path, w, ff), whys in rep.items():
            if under:
                for u in under:
                    if path == u or path.startswith(u + '.'):
                        path = path[len(u) + 1:] if path != u else path
            ex = None
            for (prx, wrx), reason in exempt.items():
                if re.search(prx, path) and re.search(wrx, w):
                    ex = reason
            if ex:
                used.append('%s / %s in %s: %s' % (path, w, e, ex))
                continue
            g = groups[(path, w)]
            g['entries'].add(e)
            g['ffs'].add(ff)
            g['whys'].extend(whys)
    return groups, sorted(set(used))


def fail_atomic_paths(P, entries, path_rx, what, exempt_writers=None):
    """FAIL-ATOMIC restricted to the state paths matching path_rx: over the given entry operations no such path is written with an
    error return still reachable afterwards. Returns a rule function."""
    def f(P_):
        r = Res()
        ents = [e for e in entries if P_.has_fn(e)]
        if not ents:
            from .facts import AnchorMissing
            raise AnchorMissing('none of %s found' % entries)
        sums, _fa = run_entries(P_, ents)
        prx = re.compile(path_rx)
        seen = set()
        for e in ents:
            mods = mod_paths(P_, sums[e], 1)
            r.site('%s: %d state path(s) written, %d matching /%s/' % (e, len(mods), sum(1 for m in mods if prx.search(m)), path_rx))
            for (path, w, ff), whys in sorted(dirty_report(P_, sums[e], 1).items()):
                if not prx.search(path) or (path, w) in seen:
                    continue
                if exempt_writers and re.search(exempt_writers, w):
                    continue
                seen.add((path, w))
                r.bad('path=%s|writer=%s' % (path, w), '%s: `%s` is written in `%s` and `%s` can still fail afterwards (%s)'
                      % (what, path, w, ff, sorted(set(whys))[0]), where=sorted(set(whys))[:3])
        return r
    return f
