"""Rule-evaluation context: loads programs per configuration, records rule instances,
matches findings against known_findings.json, writes evidence and replay files."""
import json
import os
import sys
import time
import traceback

from . import extract
from .facts import Prog, AnchorMissing

VERIF = extract.VERIF


class Violation:
    def __init__(self, key, msg, where=None, witness=None, members=None):
        self.key = key          # position-free identity of the violation
        self.msg = msg
        self.where = where or []
        self.witness = witness or {}
        self.members = members  # optional set of sub-instances (e.g. operations) the violation covers


class Res:
    """result of evaluating one rule instance"""

    def __init__(self):
        self.sites = []         # matched sites (file:line strings, decoration)
        self.violations = []    # Violation objects (keys relative to the instance)
        self.detail = {}

    def site(self, s):
        self.sites.append(s)
        return self

    def bad(self, subkey, msg, where=None, witness=None, members=None):
        self.violations.append(Violation(subkey, msg, where, witness, members))
        return self


_PROGS = {}


def load_prog(config):
    if config not in _PROGS:
        d, th, dt = extract.facts_dir(config)
        p = Prog(d, config)
        p.tree_hash = th
        p.extract_s = dt
        _PROGS[config] = p
    return _PROGS[config]


class Ctx:
    def __init__(self, prop, tier, configs):
        self.prop = prop
        self.tier = tier
        self.configs = configs
        self.config = None
        self.P = None
        self.instances = []     # dicts
        self.findings = []      # (full key, Violation, instance dict)
        self.notes = []
        self.notices = []       # (full key, Violation, instance dict) of advisory instances
        self.t0 = time.time()
        self.analysed = {}

    def use(self, config):
        self.config = config
        self.P = load_prog(config)
        self.analysed[config] = {'bodies': len(self.P.fns), 'adts': len(self.P.adts), 'crates': self.P.crates,
                                 'tree': self.P.tree_hash}
        return self.P

    def check(self, kind, name, func, floor=0, configs=None, advisory=False):
        """evaluate one rule instance. `func(P)` returns Res. Fails closed on a missing anchor
        and on fewer matched sites than `floor` (the count confirmed by hand when armed)."""
        if configs is not None and self.config not in configs:
            return None
        inst = {'kind': kind, 'name': name, 'config': self.config, 'sites': [], 'n_sites': 0, 'floor': floor,
                'verdict': 'holds'}
        base = '%s|%s|%s' % (self.prop, kind, name)
        try:
            r = func(self.P)
            if r is None:
                r = Res()
        except AnchorMissing as e:
            r = Res()
            r.bad('anchor-missing', 'rule anchor does not resolve (fails closed): %s' % e)
        except Exception as e:       # an analysis crash must not look like a pass
            r = Res()
            r.bad('internal-error', 'analysis error %s: %s' % (type(e).__name__, e),
                  witness={'trace': traceback.format_exc()[-1500:]})
        inst['n_sites'] = len(r.sites)
        inst['sites'] = r.sites[:6]
        if r.detail:
            inst['detail'] = r.detail
        if floor and len(r.sites) < floor and not r.violations:
            r.bad('below-floor', 'rule matched %d site(s), fewer than the %d confirmed when the rule was armed'
                  % (len(r.sites), floor))
        seen = set()
        # an advisory instance compares reviewed STRUCTURE with the current one; its drift is printed as a REVIEW line and recorded
        # in the evidence but is not a verdict on the property (a harmless rewrite changes structure too). Failing closed (missing
        # table, analysis error) stays a violation. VERIF_STRICT_INVENTORIES=1 turns drift into violations.
        soft = advisory and not os.environ.get('VERIF_STRICT_INVENTORIES')
        for v in r.violations:
            full = base + '|' + v.key
            if (full, self.config) in seen:
                continue
            seen.add((full, self.config))
            if soft and v.key not in ('baseline-missing', 'internal-error', 'anchor-missing', 'below-floor'):
                inst['verdict'] = 'drift'
                self.notices.append((full, v, inst))
                continue
            inst['verdict'] = 'violated'
            self.findings.append((full, v, inst))
        if advisory:
            inst['advisory'] = True
        self.instances.append(inst)
        return r

    def note(self, s):
        self.notes.append(s)


def load_known():
    p = os.path.join(VERIF, 'known_findings.json')
    if not os.path.exists(p):
        return {'findings': [], 'fixed': []}
    with open(p) as fh:
        return json.load(fh)


def finish(ctx, level, explanation, assumptions, technique, extra_cov=None, seed=0):
    """print KNOWN-FINDING / VIOLATION lines, write evidence + replay files, return exit code"""
    known = load_known()
    kmap = {k['key']: k for k in known.get('findings', []) if k.get('property') == ctx.prop}
    replay_dir = os.path.join(extract.CACHE, 'replay', ctx.prop)
    os.makedirs(replay_dir, exist_ok=True)
    viol = []
    known_hit = {}
    by_key = {}
    for full, v, inst in ctx.findings:
        by_key.setdefault(full, []).append((v, inst))
    for full, lst in sorted(by_key.items()):
        v, inst = lst[0]
        cfgs = sorted(set(i['config'] for _, i in lst))
        kf = kmap.get(full)
        if kf is not None:
            # a grouped finding (one key, several operations): known only if every operation it covers is listed
            allm = set()
            for vv, _ in lst:
                allm |= set(vv.members or ())
            extra = sorted(allm - set(kf.get('members', []))) if (allm or kf.get('members')) else []
            if not extra:
                known_hit[full] = (v, cfgs)
                for _, i in lst:
                    i['verdict'] = 'known-finding'
                continue
            v.msg += ' -- NEW operation(s) not covered by the known finding: ' + ', '.join(extra)
        viol.append((full, v, cfgs, inst))
    for full, (v, cfgs) in sorted(known_hit.items()):
        print('KNOWN-FINDING: property=%s %s [%s] (configs %s)' % (ctx.prop, kmap[full].get('what', v.msg), full, ','.join(cfgs)))
    dump = os.environ.get('VERIF_DUMP_FINDINGS')
    if dump:
        allf = []
        for full, lst in sorted(by_key.items()):
            mem = set()
            for vv, _ in lst:
                mem |= set(vv.members or ())
            allf.append({'property': ctx.prop, 'key': full, 'members': sorted(mem), 'configs': sorted(set(i['config'] for _, i in lst)),
                         'message': lst[0][0].msg[:300]})
        with open(dump, 'w') as fh:
            json.dump(allf, fh, indent=1)
    n = 0
    for full, v, cfgs, inst in viol:
        n += 1
        rp = os.path.join(replay_dir, 'violation_%02d.json' % n)
        with open(rp, 'w') as fh:
            json.dump({'property': ctx.prop, 'key': full, 'rule_kind': inst['kind'], 'instance': inst['name'],
                       'configs': cfgs, 'message': v.msg, 'where': v.where, 'witness': v.witness,
                       'tree': ctx.analysed}, fh, indent=1)
        print('VIOLATION property=%s replay=%s' % (ctx.prop, rp))
        print('  rule=%s instance=%s configs=%s' % (inst['kind'], inst['name'], ','.join(cfgs)))
        print('  key=%s' % full)
        print('  %s' % v.msg)
        for w in (v.where or [])[:8]:
            print('    at %s' % w)
    nk = {}
    for full, v, inst in ctx.notices:
        nk.setdefault(full, (v, inst))
    for full, (v, inst) in sorted(nk.items()):
        print('REVIEW property=%s rule=%s key=%s' % (ctx.prop, inst['kind'], full))
        print('  %s' % v.msg[:400])
    # evidence
    insts = ctx.instances
    nontrivial = len(set((i['kind'], i['name']) for i in insts if i['n_sites'] > 0))
    holds = sum(1 for i in insts if i['verdict'] == 'holds')
    drift = sum(1 for i in insts if i['verdict'] == 'drift')
    samples = []
    for i in insts:
        if len(samples) >= 12:
            break
        if i['n_sites'] > 0 and i['config'] == ctx.configs[0]:
            samples.append({'rule': i['kind'], 'instance': i['name'], 'config': i['config'], 'matched_sites': i['n_sites'],
                            'sites': i['sites'][:3], 'verdict': i['verdict']})
    cov = {
        'explanation': explanation,
        'evaluations': len(insts),
        'distinct_nontrivial': nontrivial,
        'rule': 'one evaluation = one rule instance evaluated on one build configuration over all MIR bodies of that '
                'configuration; non-trivial = the instance matched at least one site (call site, assignment, guard, '
                'codec impl, panic site) in the analysed program; distinct = by (rule kind, instance name)',
        'obligations': len(insts),
        'discharged': holds,
        'known_findings_hit': len(known_hit),
        'review_notices': {'count': len(nk), 'keys': sorted(nk)[:20],
                           'meaning': 'drift of reviewed structure reported by advisory instances; not a verdict'},
        'exhaustive': True,
        'samples': samples or [{'note': 'no instance matched a site'}],
        'configurations': ctx.analysed,
        'rule_kinds': sorted(set(i['kind'] for i in insts)),
        'sites_matched_total': sum(i['n_sites'] for i in insts),
        'instances': [{'k': i['kind'], 'n': i['name'], 'c': i['config'], 'sites': i['n_sites'], 'floor': i['floor'],
                       'v': i['verdict'], **({'advisory': True} if i.get('advisory') else {})} for i in insts],
        'technique': technique,
    }
    if extra_cov:
        cov.update(extra_cov)
    ev = {
        'property_id': ctx.prop,
        'tier': ctx.tier,
        'seed': seed,
        'level': level,
        'coverage': cov,
        'assumptions': assumptions + ctx.notes,
        'wall_s': round(time.time() - ctx.t0, 2),
        'violations': len(viol),
    }
    # evidence/<id>.json describes runs against /repo only; a run against another checkout (MLS_REPO: self-test copies, seeded
    # worktrees) keeps its evidence beside its private cache
    evdir = os.path.join(VERIF, 'evidence')
    if os.environ.get('MLS_REPO') and os.path.realpath(os.environ['MLS_REPO']) != '/repo':
        evdir = os.path.join(os.environ.get('MLS_VERIF_CACHE') or os.path.join(VERIF, '.cache'), 'evidence-other')
    os.makedirs(evdir, exist_ok=True)
    with open(os.path.join(evdir, ctx.prop + '.json'), 'w') as fh:
        json.dump(ev, fh, indent=1)
    print('%s: %d rule instances over configs %s; %d hold, %d known finding(s), %d violation(s)%s; %.1fs'
          % (ctx.prop, len(insts), ','.join(ctx.analysed), holds, len(known_hit), len(viol),
             (', %d advisory instance(s) report drift' % drift) if drift else '', time.time() - ctx.t0))
    return 1 if viol else 0
