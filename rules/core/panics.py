"""PANIC-AUDIT: enumerate potential panic sites in code reachable from attacker-fed entry points,
discharge those protected by a dominating guard, compare the rest with the reviewed baseline."""
import collections
import json
import os
import re

from .engine import Res
from .facts import callee_path, callee_resolved, callee_name
from .origins import Origins
from .rules import reachable_bodies, _nogen
from .fa_rule import fa_for

TABLES = os.path.join(os.path.dirname(os.path.dirname(os.path.abspath(__file__))), 'tables')

PANICKY_CALL = re.compile(
    r"(Option::<T>::(unwrap|expect)$|Result::<T, E>::(unwrap|expect|unwrap_err|expect_err)$|core::panicking::|std::rt::begin_panic|"
    r"::index$|::index_mut$|::split_at$|::split_at_mut$|::copy_from_slice$|::clone_from_slice$|"
    r"Vec::<T, A>::(insert|remove|swap_remove|drain|split_off)$|VecDeque::<T, A>::(insert|remove|swap|drain)$|"
    r"::chunks$|::chunks_exact$|::windows$|slice::<impl \[T\]>::swap$|::rotate_left$|::rotate_right$|::split_first$|"
    r"core::slice::index::|core::str::slice_error_fail|core::option::unwrap_failed|core::result::unwrap_failed|core::option::expect_failed)")


def site_kind(t):
    p = callee_path(t)
    r = callee_resolved(t)
    for s in (p, r):
        m = PANICKY_CALL.search(s)
        if m:
            gs = ' '.join(g['s'] for g in (t['callee'].get('gargs') or []))
            if ('::index' in s) and 'RangeFull' in gs:
                return None
            name = _nogen(s).split('::')[-1]
            if 'panicking' in s or 'begin_panic' in s or '_failed' in s or 'slice_error_fail' in s:
                name = 'panic'
            if name in ('index', 'index_mut'):
                recv = gs.split(' ')[0] if gs else ''
                if re.search(r'HashMap|BTreeMap', recv):
                    name = 'map-index'
                elif re.search(r'Range', gs):
                    name = 'slice-range'
                else:
                    name = 'index'
            return 'call:' + name
    return None


WIDE = {'usize', 'u64', 'u32', 'i64', 'i32', 'isize', 'u128', 'i128'}


class PanicAudit:
    def __init__(self, P, entry_quals, envs=None):
        self.P = P
        self.resolver = fa_for(P)
        roots = []
        for q in entry_quals:
            fn = P.fn(q)
            roots.append((fn['key'], tuple(sorted((envs or {}).get(q, {}).items()))))
        self.contexts = reachable_bodies(P, self.resolver, roots)
        self.keys = sorted(set(k for k, _ in self.contexts))

    def sites(self):
        """[(fn, kind, block, discharged_reason|None, operand text)]"""
        out = []
        for k in self.keys:
            fn = self.P.fns[k]
            body = self.P.body(fn)
            o = None
            for bi, b in enumerate(fn['blocks']):
                if b.get('cu'):
                    continue
                t = b['term']
                kind = None
                if t['k'] == 'assert' and t['mk'] not in ('misaligned', 'nullptr', 'other'):
                    kind = t['mk']
                elif t['k'] == 'call' and t.get('callee'):
                    kind = site_kind(t)
                if not kind:
                    continue
                if o is None:
                    o = Origins(body)
                why, text = self.discharge(fn, body, o, bi, t, kind)
                out.append((fn, kind, bi, why, text))
        return out

    def discharge(self, fn, body, o, bi, t, kind):
        text = ''
        if t['k'] == 'assert':
            det = t.get('det') or []
            if len(det) == 2:
                a, b = o.op_str(det[0]), o.op_str(det[1])
                text = '%s , %s' % (a[:80], b[:80])
                if kind.startswith('overflow:'):
                    op = kind.split(':')[1]
                    ty = ''
                    for d in det:
                        if d['k'] in ('copy', 'move') and not d['pl']['p']:
                            ty = fn['locals'][d['pl']['l']]['ty']
                        elif d['k'] == 'const':
                            ty = ty or d['v'].get('ty', '')
                    if op in ('Add', 'Mul') and ty in WIDE:
                        return 'wide-add: needs >= 2^32 accumulated units (lengths bounded by memory, counters by traffic)', text
                    if op == 'Sub':
                        g = self.dominating_cmp(body, o, bi, a, b)
                        if g:
                            return 'guarded: ' + g, text
                        if det[1]['k'] == 'const' and re.search(r'::len\(|\.len\b|PtrMetadata', a) is None:
                            pass
                    if op in ('Shl', 'Shr') and det[1]['k'] == 'const':
                        return 'constant shift', text
                if kind == 'bounds':
                    # Assert(Lt(index, len)): discharged by a dominating `index < len` on the same operands
                    g = self.dominating_cmp(body, o, bi, b, a, strict=True)
                    if g:
                        return 'guarded: ' + g, text
            if fn.get('mac') and 'Derive' in fn['mac']:
                return 'derive-generated arithmetic', text
            return None, text
        # calls
        args = t['args']
        text = ', '.join(o.op_str(a)[:60] for a in args[:2])
        p = callee_path(t)
        if kind in ('call:unwrap', 'call:expect'):
            s = o.op_str(args[0]) if args else ''
            if re.search(r'Mutex.*::lock\(|::lock\(', s):
                return 'lock().unwrap(): poisoning only after an earlier panic', text
            if re.search(r'try_into\(|TryInto::try_into|TryFrom::try_from', s) and re.search(r'const \d+', s):
                return None, text
        if kind == 'call:panic' and body.B[bi].get('exp'):
            # panics inside macro expansions (assert!/unreachable!/debug_assert!) are still sites
            return None, text
        return None, text

    def dominating_cmp(self, body, o, site_bi, a, b, strict=False):
        """is there a dominating branch that establishes a >= b (or a > b when strict) on the same operand origins?"""
        from .guards import GuardExtractor, CMP, NEG
        gx = GuardExtractor(body)
        for bi, blk in enumerate(body.B):
            t = blk['term']
            if t['k'] != 'switch' or t['d']['k'] not in ('copy', 'move') or t['d']['pl']['p']:
                continue
            l = t['d']['pl']['l']
            if body.fn['locals'][l]['ty'] != 'bool' or len(t['ts']) != 1:
                continue
            rel = gx.cond_of_local(l)
            if rel[0] not in NEG:
                continue
            v, tgt = t['ts'][0]
            false_t, true_t = (tgt, t['o']) if v == '0' else (t['o'], tgt)
            for holds, target in ((rel[0], true_t), (NEG[rel[0]], false_t)):
                if target == site_bi or (body.dominates(target, site_bi) and not body.dominates(target, bi)):
                    x, y = rel[1], rel[2]
                    ok_rel = {'>'} if strict else {'>', '>='}
                    ok_rev = {'<'} if strict else {'<', '<='}
                    if (x == a and y == b and holds in ok_rel) or (x == b and y == a and holds in ok_rev):
                        return '%s %s %s' % (x[:40], holds, y[:40])
        return None

    def counts(self):
        """undischarged potential panic sites per (source file, kind) -- keyed per file so that moving code between
        functions of one file does not change the counts; `where` keeps the functions for the report"""
        c = collections.defaultdict(lambda: collections.Counter())
        where = collections.defaultdict(list)
        total = 0
        discharged = 0
        for fn, kind, bi, why, text in self.sites():
            total += 1
            if why:
                discharged += 1
                continue
            fl = fn['loc'].rsplit(':', 1)[0]
            c[fl][kind] += 1
            where[(fl, kind)].append('%s  %s [%s]' % (fn['blocks'][bi]['ln'], fn['qual'], text))
        return c, where, total, discharged


def load_baseline(name):
    p = os.path.join(TABLES, name)
    if not os.path.exists(p):
        return {}
    with open(p) as fh:
        return json.load(fh)


def panic_audit(P, entry_quals, baseline_name, config, label):
    """violation when a function reachable from the entries has more undischarged potential panic
    sites of some kind than in the reviewed baseline"""
    pa = PanicAudit(P, entry_quals)
    c, where, total, discharged = pa.counts()
    base = load_baseline(baseline_name).get(config)
    r = Res()
    r.detail = {'reachable_bodies': len(pa.keys), 'potential_sites': total, 'auto_discharged': discharged,
                'functions_with_sites': len(c)}
    for q in sorted(c):
        for kind, n in sorted(c[q].items()):
            r.site('%s: %d x %s' % (q, n, kind))
    if base is None:
        r.bad('baseline-missing', 'no reviewed panic-site baseline for configuration %s (%s)' % (config, baseline_name))
        return r, c, where
    for q in sorted(c):
        for kind, n in sorted(c[q].items()):
            b = base.get(q, {}).get(kind, 0)
            if n > b:
                r.bad('file=%s|kind=%s' % (q, kind),
                      '%s (code reachable from %s) has %d undischarged potential panic site(s) of kind %s, the reviewed baseline has %d: '
                      'a guard was removed or a new panicking operation was added on the attack surface'
                      % (q, label, n, kind, b), where=where[(q, kind)][:8])
    return r, c, where
