"""Fact loader: the type-checked program (MIR) of one build configuration as Python data.

Prog      -- all bodies / ADTs / impl tables of a configuration, anchor lookup by semantic name
Body      -- per-function CFG helpers (successors, predecessors, dominators, exits, def sites)
"""
import collections
import glob
import json
import os
import re


class AnchorMissing(Exception):
    """A rule names a function / field / variant that does not exist in the analysed program.
    Rules fail closed on this: a rule that matches nothing would pass vacuously forever."""


SKIP_CRATES = {'mls_rs_codec_derive'}
CRATE_ORDER = ['mls_rs', 'mls_rs_core', 'mls_rs_codec', 'mls_rs_identity_x509', 'mls_rs_provider_sqlite']


def _last(path):
    # last path segment ignoring generic args: a::b::C<T> -> C
    path = re.sub(r'<.*$', '', path)
    return path.split('::')[-1]


def _strip_generics(s):
    out = []
    depth = 0
    for ch in s:
        if ch == '<':
            depth += 1
        elif ch == '>':
            depth -= 1
        elif depth == 0:
            out.append(ch)
    return ''.join(out)


class Prog:
    def __init__(self, d, config='?'):
        self.dir = d
        self.config = config
        self.fns = {}
        self.adts = {}
        self.crates = []
        for f in sorted(glob.glob(os.path.join(d, '*.jsonl'))):
            crate = os.path.basename(f).split('.')[0]
            if crate in SKIP_CRATES:
                continue
            self.crates.append(crate)
            with open(f) as fh:
                for l in fh:
                    r = json.loads(l)
                    rec = r.get('rec')
                    if rec == 'fn':
                        r['crate'] = crate
                        k = self.key(r['path'], crate)
                        r['key'] = k
                        self.fns[k] = r
                    elif rec == 'adt':
                        r['crate'] = crate
                        self.adts[r['path']] = r
        self.children = collections.defaultdict(list)
        for k, r in self.fns.items():
            if r['kind'] == 'Closure':
                self.children[self.key(r['parent'], r['crate'])].append(k)
        self.impls = {}      # (trait, self_head, name) -> key
        self.defaults = {}   # (trait, name) -> key
        self.by_qual = collections.defaultdict(list)
        for k, r in self.fns.items():
            c = r['cont']
            if c:
                if c['kind'] == 'impl' and c['trait']:
                    self.impls[(c['trait'], c['self_head'], c['name'])] = k
                elif c['kind'] == 'trait':
                    self.defaults[(c['trait'], c['name'])] = k
        for k, r in self.fns.items():
            r['qual'] = self._qual(r)
            self.by_qual[r['qual']].append(k)
        self.adt_by_short = collections.defaultdict(list)
        for p in self.adts:
            self.adt_by_short[_last(p)].append(p)
        self.mutref_adts = set()
        for p, a in self.adts.items():
            for v in a['variants']:
                for fld in v['fields']:
                    if re.search(r"&('\w+ )?mut ", fld['ty']):
                        self.mutref_adts.add(p)
        self._bodies = {}

    # ------------------------------------------------------------------ naming
    _PARAM_TABLE = None

    def reviewed_param_names(self, fn):
        """names of the parameters of `fn` on the reviewed tree, by position, or None (new function, changed arity, or a
        closure whose parent has a different number of closures than on the reviewed tree)"""
        if Prog._PARAM_TABLE is None:
            import json as _json
            tp = os.path.join(os.path.dirname(os.path.dirname(os.path.abspath(__file__))), 'tables', 'param_names.json')
            try:
                Prog._PARAM_TABLE = _json.load(open(tp))
            except Exception:
                Prog._PARAM_TABLE = {}
        if os.environ.get('VERIF_NO_PARAM_TABLE'):
            return None
        tab = Prog._PARAM_TABLE.get(self.config) or {}
        ent = tab.get(fn['key'])
        if not ent or len(ent['names']) != fn['argc']:
            return None
        if fn['kind'] == 'Closure':
            pkey = fn['key'].rsplit('::{closure#', 1)[0]
            if ent.get('siblings') != len(self.children.get(pkey, [])):
                return None
        return ent['names']

    @staticmethod
    def key(path, crate):
        if path.startswith('<'):
            return crate + '|' + path
        return path

    def _qual(self, r):
        """Semantic short name used by rule tables:
        inherent  `Group::commit_internal`, trait impl `Group as MessageProcessor::update_key_schedule`,
        trait default `MessageProcessor::process_commit`, free fn `util::validate_tree_and_info_joiner`,
        closure `<parent qual>::{closure#N}`."""
        if r['kind'] == 'Closure':
            pk = self.key(r['parent'], r['crate'])
            parent = self.fns.get(pk)
            pq = self._qual(parent) if parent else _strip_generics(r['parent'])
            return pq + '::' + r['path'].split('::')[-1]
        c = r['cont']
        if c and c['kind'] == 'impl':
            st = c['self_head']
            st = _last(st[4:]) if st.startswith('adt:') else _strip_generics(c['self'])
            if c['trait']:
                return '%s as %s::%s' % (st, _last(c['trait']), c['name'])
            return '%s::%s' % (st, c['name'])
        if c and c['kind'] == 'trait':
            return '%s::%s' % (_last(c['trait']), c['name'])
        segs = _strip_generics(r['path']).split('::')
        return '::'.join(segs[-2:])

    def lookup(self, path, crate_hint=None):
        """resolve a def path printed by rustc to a body key"""
        if path in self.fns:
            return path
        if path.startswith('<'):
            for c in ([crate_hint] if crate_hint else []) + CRATE_ORDER:
                k = c + '|' + path
                if k in self.fns:
                    return k
        return None

    def fn(self, qual, crate=None):
        if qual in self.fns:
            return self.fns[qual]
        ks = self.by_qual.get(qual, [])
        if crate:
            ks = [k for k in ks if self.fns[k]['crate'] == crate]
        if len(ks) == 1:
            return self.fns[ks[0]]
        if not ks:
            if qual in self.fns:
                return self.fns[qual]
            raise AnchorMissing('function `%s` not found in configuration %s' % (qual, self.config))
        raise AnchorMissing('function name `%s` is ambiguous in configuration %s: %s' % (qual, self.config, ks))

    def has_fn(self, qual):
        return len(self.by_qual.get(qual, [])) == 1

    def fns_matching(self, regex):
        rx = re.compile(regex)
        return [r for r in self.fns.values() if rx.search(r['qual'])]

    def adt(self, short):
        ps = self.adt_by_short.get(short, [])
        if short in self.adts:
            return self.adts[short]
        if len(ps) == 1:
            return self.adts[ps[0]]
        if not ps:
            raise AnchorMissing('type `%s` not found in configuration %s' % (short, self.config))
        raise AnchorMissing('type name `%s` is ambiguous: %s' % (short, ps))

    def fields(self, short, variant=None):
        a = self.adt(short)
        vs = a['variants']
        if variant is not None:
            vs = [v for v in vs if v['name'] == variant]
            if not vs:
                raise AnchorMissing('variant %s::%s not found' % (short, variant))
        return [f['name'] for f in vs[0]['fields']]

    def closures_of(self, key, recursive=True):
        out = []
        st = list(self.children.get(key, []))
        while st:
            k = st.pop()
            out.append(k)
            if recursive:
                st.extend(self.children.get(k, []))
        return out

    def body(self, fn_or_key):
        k = fn_or_key if isinstance(fn_or_key, str) else fn_or_key['key']
        b = self._bodies.get(k)
        if b is None:
            b = Body(self, self.fns[k])
            self._bodies[k] = b
        return b

    def is_override(self, trait_last, self_last, name):
        for (tr, sh, nm) in self.impls:
            if nm == name and _last(tr) == trait_last and sh.startswith('adt:') and _last(sh[4:]) == self_last:
                return True
        return False


def module_private(fn):
    """visible only inside its own module (or a parent module below the crate root): the kind of helper that is introduced,
    renamed, inlined and split freely"""
    v = fn.get('vis') or ''
    if not v.startswith('Restricted('):
        return False
    m = re.search(r'~ (\w+)\[[0-9a-f]+\](.*?)\)\)$', v)
    return bool(m and m.group(2))       # `Restricted(crate root)` = pub(crate) is not private


def callee_path(term):
    c = term.get('callee')
    if not c:
        return ''
    return c['path']


def callee_resolved(term):
    c = term.get('callee')
    if not c:
        return ''
    r = c.get('res')
    return (r or {}).get('path') or c['path']


def callee_name(term):
    """trait-qualified short name of the callee: `Trait::method` for trait calls, else last two segments"""
    c = term.get('callee')
    if not c:
        return ''
    if c.get('trait'):
        return _last(c['trait']['trait']) + '::' + c['trait']['name']
    return short_path(c['path'])


def short_path(path):
    """`Type::method` for inherent impl paths (`a::b::<impl x::Type<C>>::method`), else the last two segments"""
    i = path.find('<impl ')
    if i >= 0:
        depth = 0
        j = i
        for j in range(i, len(path)):
            if path[j] == '<':
                depth += 1
            elif path[j] == '>':
                depth -= 1
                if depth == 0:
                    break
        inner = path[i + 6:j]
        rest = path[j + 1:]
        if ' for ' in inner:
            inner = inner.split(' for ')[-1]
        ty = _last(_strip_generics(inner)) or inner
        return ty + '::' + '::'.join(x for x in _strip_generics(rest).split('::') if x)
    segs = [x for x in _strip_generics(path).split('::') if x]
    return '::'.join(segs[-2:])


def is_result_ty(s):
    return bool(re.match(r'(std|core)::result::Result<', s))


class Body:
    """CFG view of one MIR body. Unwind edges are not part of the facts, so cleanup blocks are
    unreachable and every path is a normal-control-flow path."""

    def __init__(self, prog, fn):
        self.P = prog
        self.fn = fn
        self.B = fn['blocks']
        self.n = len(self.B)
        self.argc = fn['argc']
        self._succ = [self._succs(b['term']) for b in self.B]
        self._pred = [[] for _ in self.B]
        for i, ss in enumerate(self._succ):
            for s in ss:
                self._pred[s].append(i)
        self.defs = collections.defaultdict(list)    # local -> [('st', rv, bi, si) | ('call', term, bi)]
        for bi, b in enumerate(self.B):
            if b.get('cu'):
                continue
            for si, st in enumerate(b['st']):
                if not st['lhs']['p']:
                    self.defs[st['lhs']['l']].append(('st', st['rv'], bi, si))
            t = b['term']
            if t['k'] == 'call' and not t['dest']['p']:
                self.defs[t['dest']['l']].append(('call', t, bi))
        self.names = {}
        for d in fn['dbg']:
            if not d['pl']['p']:
                self.names.setdefault(d['pl']['l'], d['name'])
        # parameters carry the names they had on the reviewed tree (rules/tables/param_names.json, by position), so that renaming a
        # parameter does not change the origin strings the rule tables are written against
        rev = prog.reviewed_param_names(fn) if hasattr(prog, 'reviewed_param_names') else None
        if rev:
            for i, nm in enumerate(rev):
                if nm and (i + 1) in self.names:
                    self.names[i + 1] = nm
        # captured variables of a closure: debug info places `(*_1).N` / `_1.N`
        self.upvars = {}
        if fn['kind'] == 'Closure':
            for d in fn['dbg']:
                pl = d['pl']
                if pl['l'] == 1 and pl['p']:
                    fs = [e for e in pl['p'] if e.startswith('.')]
                    if len(fs) == 1 and fs[0][1:].isdigit():
                        self.upvars.setdefault(fs[0], d['name'])
            # a captured parameter of the enclosing function keeps its reviewed name too
            try:
                pkey = fn['key'].rsplit('::{closure#', 1)[0]
                pfn = prog.fns.get(pkey)
                prev = prog.reviewed_param_names(pfn) if pfn is not None and hasattr(prog, 'reviewed_param_names') else None
                if prev:
                    cur = {}
                    for d in pfn['dbg']:
                        if not d['pl']['p'] and 1 <= d['pl']['l'] <= pfn['argc']:
                            cur.setdefault(d['name'], d['pl']['l'])
                    for f_, nm in list(self.upvars.items()):
                        l_ = cur.get(nm)
                        if l_ and l_ - 1 < len(prev) and prev[l_ - 1]:
                            self.upvars[f_] = prev[l_ - 1]
            except Exception:
                pass
        self.is_result = is_result_ty(fn['ret'])
        self._err = None
        self._dom = None
        self._reach_cache = {}

    @staticmethod
    def _succs(term):
        k = term['k']
        if k == 'goto':
            return [term['t']]
        if k == 'switch':
            out = []
            for _, t in term['ts']:
                if t not in out:
                    out.append(t)
            if term['o'] not in out:
                out.append(term['o'])
            return out
        if k in ('drop', 'assert'):
            return [term['t']]
        if k == 'call':
            return [term['t']] if term['t'] >= 0 else []
        return []

    def succs(self, bi):
        return self._succ[bi]

    def preds(self, bi):
        return self._pred[bi]

    def term(self, bi):
        return self.B[bi]['term']

    def ln(self, bi):
        return self.B[bi]['ln']

    # -------------------------------------------------------------- exits
    @property
    def err_blocks(self):
        """blocks where an error return originates: `?` (from_residual into _0), `_0 = Err(..)`.
        value = error description (variant origin when syntactically visible, else '?')"""
        if self._err is None:
            e = {}
            for bi, b in enumerate(self.B):
                if b.get('cu'):
                    continue
                t = b['term']
                if t['k'] == 'call' and t['dest']['l'] == 0 and not t['dest']['p'] and \
                        callee_path(t).endswith('FromResidual::from_residual'):
                    e[bi] = '?'
                for st in b['st']:
                    # `_0 = Err(..)`, and `_x = Err(..)` built as the value of a match / if arm
                    # that a later `?` raises (the Continue arm is infeasible from here)
                    if not st['lhs']['p'] and st['rv']['k'] == 'agg' and \
                            st['rv']['what'].endswith('Result::Err'):
                        e[bi] = 'Err'
            self._err = e
        return self._err

    def return_blocks(self):
        return [bi for bi, b in enumerate(self.B) if b['term']['k'] == 'return' and not b.get('cu')]

    def reach(self, starts, avoid=()):
        """blocks reachable from `starts` (inclusive) without entering a block in `avoid`"""
        avoid = avoid if isinstance(avoid, (set, frozenset)) else set(avoid)
        seen = set()
        st = [s for s in starts if s not in avoid]
        while st:
            b = st.pop()
            if b in seen:
                continue
            seen.add(b)
            for s in self._succ[b]:
                if s not in seen and s not in avoid:
                    st.append(s)
        return seen

    def can_succeed(self, start, avoid=()):
        """can a non-error return be reached from `start` (error-origin blocks are sinks)?"""
        av = set(self.err_blocks) | set(avoid)
        r = self.reach([start], av)
        return any(self.B[b]['term']['k'] == 'return' for b in r)

    def dominators(self):
        if self._dom is None:
            n = self.n
            reach = self.reach([0])
            order = []
            seen = set()

            def dfs(start):
                stack = [(start, iter(self._succ[start]))]
                seen.add(start)
                while stack:
                    node, it = stack[-1]
                    adv = False
                    for s in it:
                        if s not in seen:
                            seen.add(s)
                            stack.append((s, iter(self._succ[s])))
                            adv = True
                            break
                    if not adv:
                        order.append(node)
                        stack.pop()
            dfs(0)
            rpo = list(reversed(order))
            idx = {b: i for i, b in enumerate(rpo)}
            idom = {0: 0}
            changed = True
            while changed:
                changed = False
                for b in rpo[1:]:
                    ps = [p for p in self._pred[b] if p in idom]
                    if not ps:
                        continue
                    new = ps[0]
                    for p in ps[1:]:
                        a, c = p, new
                        while a != c:
                            while idx[a] > idx[c]:
                                a = idom[a]
                            while idx[c] > idx[a]:
                                c = idom[c]
                        new = a
                    if idom.get(b) != new:
                        idom[b] = new
                        changed = True
            self._dom = idom
        return self._dom

    def dominates(self, a, b):
        idom = self.dominators()
        if b not in idom:
            return False
        x = b
        while True:
            if x == a:
                return True
            if x == 0:
                return a == 0
            x = idom[x]

    # -------------------------------------------------------------- calls
    def calls(self, pred=None):
        out = []
        for bi, b in enumerate(self.B):
            if b.get('cu'):
                continue
            t = b['term']
            if t['k'] == 'call' and (pred is None or pred(t)):
                out.append((bi, t))
        return out

    def calls_named(self, regex):
        rx = re.compile(regex)
        return self.calls(lambda t: bool(rx.search(callee_name(t)) or rx.search(callee_resolved(t))))
