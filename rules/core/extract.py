"""Fact extraction orchestration: runs the mlsfacts rustc driver over /repo for one
configuration and caches the result keyed by a hash of /repo's current working tree.

Nothing here executes code of /repo: `cargo +nightly check` type-checks and builds MIR,
the driver dumps it in `after_analysis`.
"""
import fcntl
import glob
import hashlib
import os
import shutil
import subprocess
import sys
import time

VERIF = os.path.dirname(os.path.dirname(os.path.dirname(os.path.abspath(__file__))))
REPO = os.environ.get('MLS_REPO', '/repo')
CACHE = os.environ.get('MLS_VERIF_CACHE', os.path.join(VERIF, '.cache'))
DRIVER_DIR = os.path.join(VERIF, 'driver')
DRIVER = os.path.join(DRIVER_DIR, 'target', 'release', 'mlsfacts')

FULL_FEATURES = ('external_client,self_remove_proposal,last_resort_key_package_ext,'
                 'export_key_generation,secret_tree_access,prior_epoch_membership_key,'
                 'non_domain_separated_hpke_encrypt_decrypt')

CONFIGS = {
    # name: (cargo args, why)
    'A': (['-p', 'mls-rs', '--features', 'external_client'],
          'default features + external_client: what the test-suite builds'),
    'B': (['-p', 'mls-rs', '--no-default-features', '--features', 'std'],
          'lite: *_lite / *_light siblings (no by_ref_proposal, prior_epoch, psk, private_message)'),
    'C': (['-p', 'mls-rs', '--features', FULL_FEATURES],
          'full: optional API surface'),
    'D': (['-p', 'mls-rs', '--no-default-features', '--features', 'std,rfc_compliant,external_client'],
          'norayon: sequential twins of the rayon code, no tree_index'),
    'P': (['-p', 'mls-rs-provider-sqlite'],
          'sqlite storage provider'),
}

HASH_EXT = ('.rs', '.toml', '.lock')
SKIP_DIRS = {'target', '.git', 'node_modules', 'test_data'}


class ExtractError(Exception):
    pass


def tree_hash(repo=None):
    """SHA-256 over every source / manifest file of the working tree (not target/, .git/)."""
    repo = repo or REPO
    h = hashlib.sha256()
    files = []
    for root, dirs, fs in os.walk(repo):
        dirs[:] = sorted(d for d in dirs if d not in SKIP_DIRS)
        for f in sorted(fs):
            if f.endswith(HASH_EXT):
                files.append(os.path.join(root, f))
    for p in files:
        h.update(os.path.relpath(p, repo).encode())
        h.update(b'\0')
        try:
            with open(p, 'rb') as fh:
                h.update(fh.read())
        except OSError:
            pass
        h.update(b'\0')
    # the driver itself is part of the key: a changed extractor invalidates cached facts
    with open(os.path.join(DRIVER_DIR, 'src', 'main.rs'), 'rb') as fh:
        h.update(fh.read())
    return h.hexdigest()[:24]


def nightly_sysroot():
    out = subprocess.run(['rustc', '+nightly', '--print', 'sysroot'], capture_output=True, text=True)
    if out.returncode != 0:
        raise ExtractError('nightly toolchain not available: ' + out.stderr)
    return out.stdout.strip()


def build_driver(force=False):
    if os.path.exists(DRIVER) and not force:
        src = os.path.getmtime(os.path.join(DRIVER_DIR, 'src', 'main.rs'))
        if os.path.getmtime(DRIVER) >= src:
            return
    env = dict(os.environ, CARGO_NET_OFFLINE='true')
    r = subprocess.run(['cargo', 'build', '--offline', '--release'], cwd=DRIVER_DIR, env=env,
                       capture_output=True, text=True)
    if r.returncode != 0 or not os.path.exists(DRIVER):
        raise ExtractError('driver build failed:\n' + r.stderr[-4000:])


def facts_dir(config, repo=None, cache=None):
    """Return the directory with the fact files for `config` of the current tree,
    extracting them if they are not cached."""
    repo = repo or REPO
    cache = cache or CACHE
    th = tree_hash(repo)
    out = os.path.join(cache, 'facts', config, th)
    done = os.path.join(out, 'DONE')
    if os.path.exists(done):
        return out, th, 0.0
    os.makedirs(os.path.join(cache, 'facts', config), exist_ok=True)
    lockf = open(os.path.join(cache, 'lock.' + config), 'w')
    fcntl.flock(lockf, fcntl.LOCK_EX)
    try:
        if os.path.exists(done):
            return out, th, 0.0
        t0 = time.time()
        build_driver()
        tmp = out + '.tmp'
        shutil.rmtree(tmp, ignore_errors=True)
        os.makedirs(tmp)
        tgt = os.path.join(cache, 'target', config)
        os.makedirs(tgt, exist_ok=True)
        # cargo's freshness cache would skip the wrapper for up-to-date members
        for pat in ('mls-rs*', 'mls_rs*'):
            for p in glob.glob(os.path.join(tgt, 'debug', '.fingerprint', pat)):
                shutil.rmtree(p, ignore_errors=True)
        env = dict(os.environ)
        env.update({
            'LD_LIBRARY_PATH': nightly_sysroot() + '/lib' + (':' + env['LD_LIBRARY_PATH'] if env.get('LD_LIBRARY_PATH') else ''),
            'RUSTFLAGS': '-Zmir-opt-level=0 -Awarnings',
            'RUSTC_WORKSPACE_WRAPPER': DRIVER,
            'CARGO_TARGET_DIR': tgt,
            'CARGO_NET_OFFLINE': 'true',
            'MLSFACTS_OUT': tmp,
            'MLSFACTS_STAMP': th,
        })
        env.pop('RUSTC_WRAPPER', None)
        cmd = ['cargo', '+nightly', 'check', '--offline', '-j', '16'] + CONFIGS[config][0]
        r = subprocess.run(cmd, cwd=repo, env=env, capture_output=True, text=True)
        if r.returncode != 0:
            shutil.rmtree(tmp, ignore_errors=True)
            raise ExtractError('cargo check failed for configuration %s (the tree does not build):\n%s'
                               % (config, r.stderr[-6000:]))
        files = glob.glob(os.path.join(tmp, '*.jsonl'))
        want = 'mls_rs_provider_sqlite' if config == 'P' else 'mls_rs'
        if not any(os.path.basename(f).split('.')[0] == want for f in files):
            shutil.rmtree(tmp, ignore_errors=True)
            raise ExtractError('extraction produced no fact file for crate %s (driver skipped?)\n%s'
                               % (want, r.stderr[-2000:]))
        # stamp check: every fact file must carry the current tree hash
        for f in files:
            with open(f) as fh:
                first = fh.readline()
            if th not in first:
                shutil.rmtree(tmp, ignore_errors=True)
                raise ExtractError('stale fact file ' + f)
        shutil.rmtree(out, ignore_errors=True)
        os.rename(tmp, out)
        with open(done, 'w') as fh:
            fh.write(th)
        # keep the cache small: drop fact dirs of older trees for this configuration
        keep = set([th])
        olds = sorted((d for d in glob.glob(os.path.join(cache, 'facts', config, '*'))
                       if os.path.basename(d) not in keep and not d.endswith('.tmp')),
                      key=os.path.getmtime)
        for d in olds[:-3]:
            shutil.rmtree(d, ignore_errors=True)
        return out, th, time.time() - t0
    finally:
        fcntl.flock(lockf, fcntl.LOCK_UN)
        lockf.close()


if __name__ == '__main__':
    for c in sys.argv[1:] or ['A']:
        d, th, dt = facts_dir(c)
        print('config %s tree %s -> %s (%.1fs)' % (c, th, d, dt))
