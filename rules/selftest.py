"""Checker self-test: apply each mutant of mutants/mutants.json (and each confirmed seeded change under seeded/) to a scratch
copy of /repo, run the named check against the copy and verify that it fires / stays silent.   usage: ./check selftest [names..] [-j N]"""
import concurrent.futures
import json
import os
import re
import shutil
import subprocess
import sys
import tempfile
import time

VERIF = os.path.dirname(os.path.dirname(os.path.abspath(__file__)))
REPO = os.environ.get('MLS_REPO', '/repo')


def load_mutants():
    ms = json.load(open(os.path.join(VERIF, 'mutants', 'mutants.json')))['mutants']
    sd = os.path.join(VERIF, 'seeded')
    for d in sorted(os.listdir(sd)) if os.path.isdir(sd) else []:
        mp = os.path.join(sd, d, 'meta.json')
        if not os.path.exists(mp):
            continue
        meta = json.load(open(mp))
        patch = os.path.join(sd, d, 'patch_rebased.diff')
        if not os.path.exists(patch):
            patch = os.path.join(sd, d, 'patch.diff')
        props = meta.get('check_properties') or [meta['property']]
        ms.append({'name': 'seeded-' + d, 'property': ','.join(props), 'expect': 'fire', 'key_rx': meta.get('expect_key_rx', '.'), 'patch': patch})
    bd = os.path.join(VERIF, 'benign')
    if os.path.isdir(bd):
        sys.path.insert(0, VERIF)
        from rules.core.inventory_rule import anchor_files
        limits = {}
        try:
            limits = json.load(open(os.path.join(bd, 'limits.json')))
        except Exception:
            pass
        props = ['C01', 'C02', 'C03', 'C04', 'C05', 'C06', 'C07', 'C08', 'C09', 'C10', 'C11', 'C12', 'C13', 'C15', 'C16', 'C17', 'C18', 'C19']
        for f in sorted(os.listdir(bd)):
            if not f.endswith('.diff'):
                continue
            # every check is run against every harmless patch: reachability-based rules (PANIC-AUDIT, FAIL-ATOMIC) look at code outside
            # the property's own files
            ps = props
            name = 'benign-' + f[:-5]
            ms.append({'name': name, 'property': ','.join(ps), 'expect': 'known-limit' if f[:-5] in limits else 'silent', 'patch': os.path.join(bd, f)})
    return ms


def run_one(m, workdir):
    t0 = time.time()
    name = m['name']
    copy = os.path.join(workdir, name, 'repo')
    cache = os.path.join(workdir, name, 'cache')
    os.makedirs(copy)
    os.makedirs(cache)
    subprocess.run(['rsync', '-a', '--exclude', 'target', '--exclude', '.git', REPO + '/', copy + '/'], check=True)
    # warm dependency builds: copy the target dirs of the main cache
    main_tgt = os.path.join(VERIF, '.cache', 'target')
    if os.path.isdir(main_tgt):
        subprocess.run(['cp', '-a', main_tgt, os.path.join(cache, 'target')], check=False)
    try:
        if 'patch' in m:
            r = subprocess.run(['patch', '-p1', '--no-backup-if-mismatch', '-i', m['patch']], cwd=copy, capture_output=True, text=True)
            if r.returncode != 0:
                return name, 'skipped', 'patch does not apply: ' + r.stdout[-200:], time.time() - t0
        else:
            p = os.path.join(copy, m['file'])
            s = open(p).read()
            for old_, new_ in (m.get('edits') or [[m['old'], m['new']]]):
                if s.count(old_) != 1:
                    return name, 'skipped', 'anchor text occurs %d times in %s' % (s.count(old_), m['file']), time.time() - t0
                s = s.replace(old_, new_)
            open(p, 'w').write(s)
        env = dict(os.environ, MLS_REPO=copy, MLS_VERIF_CACHE=cache)
        results = []
        for prop in m['property'].split(','):
            r = subprocess.run([os.path.join(VERIF, 'check'), prop], cwd=VERIF, env=env, capture_output=True, text=True)
            keys = re.findall(r'^\s+key=(.*)$', r.stdout, re.M)
            results.append((prop, r.returncode, keys, r.stdout[-600:] if r.returncode == 2 else ''))
        if any(rc == 2 for _, rc, _, _ in results):
            return name, 'error', 'mutant does not build / analyse: ' + ' '.join(x[3] for x in results)[-400:], time.time() - t0
        if m['expect'] == 'fire':
            hit = [k for _, rc, keys, _ in results if rc == 1 for k in keys if re.search(m.get('key_rx', '.'), k)]
            if hit:
                return name, 'ok', 'fired: ' + hit[0][:160], time.time() - t0
            allk = [k for _, _, keys, _ in results for k in keys]
            return name, 'MISSED', 'no violation matching /%s/ (violations: %s)' % (m.get('key_rx'), allk[:3]), time.time() - t0
        bad = [(p, keys) for p, rc, keys, _ in results if rc != 0]
        if bad and m['expect'] == 'known-limit':
            # a behaviour-preserving edit that the structural rules are documented (DESIGN.md 10.6) not to see through
            return name, 'known-limit', 'documented limit, raised: %s' % [(p, k[:1]) for p, k in bad], time.time() - t0
        if bad:
            return name, 'FALSE-ALARM', 'behaviour-preserving edit raised: %s' % [(p, k[:2]) for p, k in bad], time.time() - t0
        return name, 'ok', 'silent', time.time() - t0
    finally:
        shutil.rmtree(os.path.join(workdir, name), ignore_errors=True)


def run_for_property(prop, jobs=4):
    sys.path.insert(0, VERIF)
    from rules.core.inventory_rule import anchor_files
    mine = set(anchor_files(prop))
    ms = []
    nb = 0
    for m in load_mutants():
        if prop not in m['property'].split(','):
            continue
        if m['name'].startswith('benign-'):
            # the thorough tier of one property re-runs only the harmless patches that touch its own files (at most 6); the complete
            # matrix (every patch x every check) is `./check selftest`
            touched = set(re.findall(r'^\+\+\+ b/(\S+)', open(m['patch']).read(), re.M))
            if not (touched & mine) or nb >= 2:
                continue
            nb += 1
        ms.append(m)
    # keep the thorough tier of one property short (it also analyses every build configuration): the confirmed seeded changes of the
    # property first, then hand-written must-fire mutants, then at most two must-stay-silent edits; everything else is covered by
    # `./check selftest` (evidence/selftest.json)
    def rank(m):
        if m['name'].startswith('seeded-'):
            return 0
        if m['expect'] == 'fire':
            return 1
        return 2
    ms.sort(key=rank)
    silent = [m for m in ms if rank(m) == 2][:2]
    ms = [m for m in ms if rank(m) < 2][:6] + silent
    # run only this property's check for each of them
    ms = [dict(m, property=prop) for m in ms]
    workdir = tempfile.mkdtemp(prefix='mls-selftest-')
    out = []
    try:
        with concurrent.futures.ThreadPoolExecutor(max_workers=jobs) as ex:
            for res in ex.map(lambda m: run_one(m, workdir), ms):
                out.append(res)
    finally:
        shutil.rmtree(workdir, ignore_errors=True)
    return {'mutants': len(out), 'fired_or_silent_as_expected': sum(1 for r in out if r[1] == 'ok'),
            'skipped': sum(1 for r in out if r[1] == 'skipped'),
            'results': [{'name': r[0], 'verdict': r[1], 'detail': r[2][:240], 'seconds': round(r[3])} for r in out]}


def main(argv):
    jobs = 4
    names = []
    i = 0
    while i < len(argv):
        if argv[i] == '-j':
            jobs = int(argv[i + 1])
            i += 2
        else:
            names.append(argv[i])
            i += 1
    ms = [m for m in load_mutants() if not names or any(n in m['name'] for n in names)]
    workdir = tempfile.mkdtemp(prefix='mls-selftest-')
    out = []
    try:
        with concurrent.futures.ThreadPoolExecutor(max_workers=jobs) as ex:
            for res in ex.map(lambda m: run_one(m, workdir), ms):
                out.append(res)
                print('%-48s %-11s %5.0fs  %s' % (res[0], res[1], res[3], res[2][:200]), flush=True)
    finally:
        shutil.rmtree(workdir, ignore_errors=True)
    bad = [r for r in out if r[1] in ('MISSED', 'FALSE-ALARM', 'error')]
    summary = {'mutants': len(out), 'ok': sum(1 for r in out if r[1] == 'ok'), 'skipped': sum(1 for r in out if r[1] == 'skipped'),
               'missed': [r[0] for r in out if r[1] == 'MISSED'], 'false_alarms': [r[0] for r in out if r[1] == 'FALSE-ALARM'],
               'errors': [r[0] for r in out if r[1] == 'error'], 'results': [{'name': r[0], 'verdict': r[1], 'detail': r[2][:300]} for r in out]}
    os.makedirs(os.path.join(VERIF, 'evidence'), exist_ok=True)
    sp = os.path.join(VERIF, 'evidence', 'selftest.json')
    if names and os.path.exists(sp):
        # a partial run updates the entries it re-ran and keeps the others
        try:
            prev = json.load(open(sp))
            ran = set(r[0] for r in out)
            merged = [x for x in prev.get('results', []) if x['name'] not in ran] + summary['results']
            summary = {'mutants': len(merged), 'ok': sum(1 for x in merged if x['verdict'] == 'ok'),
                       'skipped': sum(1 for x in merged if x['verdict'] == 'skipped'),
                       'missed': [x['name'] for x in merged if x['verdict'] == 'MISSED'],
                       'false_alarms': [x['name'] for x in merged if x['verdict'] == 'FALSE-ALARM'],
                       'errors': [x['name'] for x in merged if x['verdict'] == 'error'], 'results': merged}
        except Exception:
            pass
    with open(sp, 'w') as fh:
        json.dump(summary, fh, indent=1)
    print('selftest: %d mutants, %d ok, %d skipped, %d missed, %d false alarms, %d errors'
          % (summary['mutants'], summary['ok'], summary['skipped'], len(summary['missed']), len(summary['false_alarms']), len(summary['errors'])))
    return 1 if bad else 0
