#!/usr/bin/env python3
"""(Re)generate rules/tables/param_names.json from the CURRENT tree: the parameter names of every function and closure, by
position. The origin printer shows parameters under these reviewed names, so that renaming a parameter does not change the origin
strings the rule tables are written against.   usage: tools/gen_param_names.py [configs..]"""
import json, os, sys
os.environ['VERIF_NO_PARAM_TABLE'] = '1'
HERE = os.path.dirname(os.path.dirname(os.path.abspath(__file__)))
sys.path.insert(0, HERE)
from rules.core import engine
from rules.core.panics import TABLES

configs = sys.argv[1:] or ['A', 'B', 'C', 'D', 'P']
tp = os.path.join(TABLES, 'param_names.json')
tab = json.load(open(tp)) if os.path.exists(tp) else {}
for c in configs:
    P = engine.load_prog(c)
    out = {}
    for k, fn in P.fns.items():
        if not fn['crate'].startswith('mls_rs') or fn.get('mac'):
            continue
        names = {}
        for d in fn['dbg']:
            if not d['pl']['p'] and 1 <= d['pl']['l'] <= fn['argc']:
                names.setdefault(d['pl']['l'], d['name'])
        if not names:
            continue
        ent = {'names': [names.get(i) for i in range(1, fn['argc'] + 1)]}
        if fn['kind'] == 'Closure':
            pkey = k.rsplit('::{closure#', 1)[0]
            ent['siblings'] = len(P.children.get(pkey, []))
        out[k] = ent
    tab[c] = out
    print(c, 'functions with named parameters', len(out))
json.dump(tab, open(tp, 'w'), sort_keys=True, separators=(',', ':'))
