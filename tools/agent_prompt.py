#!/usr/bin/env python3
"""Print the prompt given to a mutation sub-agent for one property (only the property text)."""
import json, sys
pid = sys.argv[1]
wt = sys.argv[2] if len(sys.argv) > 2 else '/tmp/wt/' + pid
hint = sys.argv[3] if len(sys.argv) > 3 else ''
avoid = sys.argv[4] if len(sys.argv) > 4 else ''
p = None
for l in open('/verif/properties.jsonl'):
    r = json.loads(l)
    if r['id'] == pid:
        p = r
print(f"""You are helping to evaluate a verification effort for the Rust crate workspace awslabs/mls-rs (an implementation of the MLS protocol, RFC 9420). Your job: craft ONE realistic, subtle code change to mls-rs that BREAKS the semantic property given below, while the code still compiles and the existing test suite still passes, and provide a demonstration (a new test or small program) that fails with your change and passes without it.

Work ONLY inside your own scratch git worktree of the repository: {wt}  (it is a git worktree; the first build compiles everything, 10-20 minutes). Do NOT touch /repo. Do NOT read or write anything under /verif or /root/proto or /root/.vp. You have no network; use `--offline` with cargo.

## The property (this is all you get)

```json
{json.dumps(p, indent=1)}
```

## What kind of change is wanted

- A change a maintainer could plausibly make by mistake (a refactor, an "optimisation", a reordering, a dropped or weakened check, an off-by-one, a wrong field/argument, two cooperating sites that each look fine alone). Small: typically 1-15 changed lines in the library source (non-test code) of mls-rs / mls-rs-core / mls-rs-codec / mls-rs-provider-sqlite.
- It must need something SPECIFIC to manifest: a particular interleaving, a fault or failure at a particular point, a multi-step sequence of operations, an unusual input or tree shape, or two cooperating sites. NOT something that ordinary use (and hence the existing tests) would expose at once.
- It must genuinely violate the property's statement (observable through the public API / observable effects), not merely look suspicious.
- It must compile (`cargo build --offline` of the workspace default members) and the existing test suite must still pass exactly as before. {hint}

{('## Already taken (produce something DIFFERENT)' + chr(10) + chr(10) + 'Another engineer already produced the following change for this property. Yours must use a different mechanism at a different site (a different function and a different kind of mistake):' + chr(10) + avoid + chr(10)) if avoid else ''}
## Existing test suite (must still pass with your change)

From the worktree root:
`cargo nextest run --workspace --no-fail-fast --tool-config-file pb:/w/lib/nextest.toml --profile pb --test-threads 8 --offline`
Baseline on the unchanged tree: 661 tests run, 656 pass, exactly these 5 fail already (ignore them): `mls-rs group::interop_test_vectors::passive_client::interop_passive_client`, `mls-rs-crypto-awslc mls_core_tests`, `mls-rs-crypto-openssl mls_core_tests`, `mls-rs-crypto-rustcrypto mls_core_tests`, `mls-rs-uniffi::kotlin_scenarios simple_scenario_sync`. The first full build in your worktree takes about 6 minutes; later ones are incremental. While iterating you can run only `cargo nextest run -p mls-rs --offline` (about 460 tests), but the final confirmation must be the full workspace command above. Use a generous timeout for these commands (up to 30 minutes).

## Demonstration

Write a NEW test (do not edit existing tests) that passes on the unchanged code and fails with your change. Prefer an integration test file `mls-rs/tests/seed_demo.rs` using the public API (see `mls-rs/tests/client_tests.rs` for how clients/groups are set up with `mls_rs::test_utils` / `test_util` feature; integration tests there are run with the features the workspace enables), or, if internals are needed, a new `#[cfg(test)] mod seed_demo` in a NEW file included from the relevant module with one added `mod` line. Run it both ways: with your change (must FAIL) and with the change reverted via `git stash` or by reverse-applying the patch (must PASS). The demo test is NOT part of the "existing tests must pass" requirement.

## Deliverables (put them in {wt}/_seed/)

1. `_seed/patch.diff` — `git diff` of ONLY the library source change (not the demo test). It must apply to a clean checkout with `git apply`.
2. `_seed/demo.diff` — `git diff` (or the new files) adding ONLY the demonstration test; plus `_seed/run_demo.sh` with the exact command that runs it.
3. `_seed/meta.json` — {{"property": "{pid}", "summary": "...what the change does...", "needs_to_manifest": "...the specific interleaving / fault / sequence / input...", "files_changed": [...], "commands_run": [...], "results": {{"existing_suite_with_change": "...", "demo_with_change": "FAIL ...", "demo_without_change": "PASS ..."}}}}

Leave the worktree with the library change and the demo applied (uncommitted is fine). Finally report in your answer: the diff, what it needs to manifest, and the observed results of the three runs. Be honest: if you could not make the suite pass or the demo behave as required, say so.
""")
