#!/usr/bin/env python3
"""debug helper: apply one mutant of mutants/mutants.json (or seeded/<id>) to a scratch copy under /tmp/trymut/<name> and leave it
there with a private cache, printing the environment to run checks against it.   usage: tools/trymut.py <mutant-name>"""
import os, subprocess, sys
VERIF = os.path.dirname(os.path.dirname(os.path.abspath(__file__)))
sys.path.insert(0, VERIF)
from rules import selftest
name = sys.argv[1]
ms = [m for m in selftest.load_mutants() if m['name'] == name]
assert ms, 'no such mutant'
m = ms[0]
base = '/tmp/trymut/' + name
copy, cache = base + '/repo', base + '/cache'
subprocess.run(['rm', '-rf', base])
os.makedirs(copy); os.makedirs(cache)
subprocess.run(['rsync', '-a', '--exclude', 'target', '--exclude', '.git', '/repo/', copy + '/'], check=True)
subprocess.run(['cp', '-a', os.path.join(VERIF, '.cache', 'target'), cache + '/target'])
if 'patch' in m:
    subprocess.run(['patch', '-p1', '--no-backup-if-mismatch', '-i', m['patch']], cwd=copy, check=True)
else:
    p = os.path.join(copy, m['file']); s = open(p).read()
    for old_, new_ in (m.get('edits') or [[m['old'], m['new']]]):
        assert s.count(old_) == 1, old_
        s = s.replace(old_, new_)
    open(p, 'w').write(s)
print('MLS_REPO=%s MLS_VERIF_CACHE=%s ./check %s' % (copy, cache, m['property'].split(',')[0]))
