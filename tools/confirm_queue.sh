#!/bin/bash
# confirm several seeds one after the other
for n in "$@"; do /verif/tools/confirm_seed.sh $n > /dev/null 2>&1; done
