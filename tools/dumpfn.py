#!/usr/bin/env python3
"""debug helper: dump the MIR facts of functions whose qualified name matches a regex.  usage: tools/dumpfn.py <config> <regex>"""
import re
import sys
import os
sys.path.insert(0, os.path.dirname(os.path.dirname(os.path.abspath(__file__))))
from rules.core.engine import load_prog
from rules.core.origins import Origins
from rules.core.facts import callee_name

P = load_prog(sys.argv[1])
rx = re.compile(sys.argv[2])
for k, f in P.fns.items():
    if not rx.search(f['qual']):
        continue
    print('==', k, f['qual'], f['loc'])
    body = P.body(f)
    o = Origins(body)
    for bi, b in enumerate(f['blocks']):
        t = b['term']
        if b.get('cu'):
            continue
        for s in b['st']:
            try:
                print('   bb%d  %s = %s' % (bi, o.place_str(s['pl']) if hasattr(o, 'place_str') else s['pl'], o.def_str(s, 0)[:120]))
            except Exception as e:
                print('   bb%d  st %s' % (bi, str(s)[:140]))
        if t['k'] == 'call':
            print(' bb%d @%s call %s(%s) -> %s' % (bi, b.get('ln'), callee_name(t), ', '.join(o.arg_str(t, i)[:50] for i in range(len(t['args']))), t.get('t')))
        elif t['k'] == 'switch':
            print(' bb%d @%s switch %s %s else %s' % (bi, b.get('ln'), o.op_str(t['d'])[:80], t['ts'], t['o']))
        else:
            print(' bb%d @%s %s %s' % (bi, b.get('ln'), t['k'], {x: t[x] for x in t if x in ('t', 'o')}))
