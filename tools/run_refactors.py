#!/usr/bin/env python3
"""Run every quick check against each behaviour-preserving patch of a refactor agent.
usage: tools/run_refactors.py <dir with p*.diff> [-j N]   -> prints, per patch, the violation keys raised (= false alarms)"""
import concurrent.futures, glob, json, os, re, shutil, subprocess, sys, tempfile
VERIF = os.path.dirname(os.path.dirname(os.path.abspath(__file__)))
PROPS = ['C01', 'C02', 'C03', 'C04', 'C05', 'C06', 'C07', 'C08', 'C09', 'C10', 'C11', 'C12', 'C13', 'C15', 'C16', 'C17', 'C18', 'C19']


def one(patch, workdir):
    name = os.path.basename(os.path.dirname(os.path.dirname(patch))) + '-' + os.path.basename(patch)[:-5]
    base = os.path.join(workdir, name)
    copy, cache = base + '/repo', base + '/cache'
    os.makedirs(copy); os.makedirs(cache)
    try:
        subprocess.run(['rsync', '-a', '--exclude', 'target', '--exclude', '.git', '/repo/', copy + '/'], check=True)
        subprocess.run(['cp', '-a', os.path.join(VERIF, '.cache', 'target'), cache + '/target'])
        r = subprocess.run(['patch', '-p1', '--no-backup-if-mismatch', '-i', patch], cwd=copy, capture_output=True, text=True)
        if r.returncode:
            return name, 'patch does not apply', []
        env = dict(os.environ, MLS_REPO=copy, MLS_VERIF_CACHE=cache)
        out = []
        for p in PROPS:
            r = subprocess.run([os.path.join(VERIF, 'check'), p], cwd=VERIF, env=env, capture_output=True, text=True)
            if r.returncode == 2:
                return name, 'does not build: ' + r.stdout[-300:], []
            out += re.findall(r'^\s+key=(.*)$', r.stdout, re.M)
        return name, 'ok', out
    finally:
        shutil.rmtree(base, ignore_errors=True)


def main():
    d = sys.argv[1]
    jobs = int(sys.argv[sys.argv.index('-j') + 1]) if '-j' in sys.argv else 3
    patches = sorted(glob.glob(os.path.join(d, 'p*.diff')))
    workdir = tempfile.mkdtemp(prefix='mls-refactor-')
    res = {}
    try:
        with concurrent.futures.ThreadPoolExecutor(max_workers=jobs) as ex:
            for name, st, keys in ex.map(lambda p: one(p, workdir), patches):
                res[name] = {'status': st, 'violations': keys}
                print('%-14s %-8s %d violation(s)' % (name, st[:40], len(keys)), flush=True)
                for k in keys[:12]:
                    print('      ' + k[:230], flush=True)
    finally:
        shutil.rmtree(workdir, ignore_errors=True)
    json.dump(res, open(os.path.join(d, 'check_results.json'), 'w'), indent=1)


main()
