#!/bin/bash
# usage: rmwt.sh <name>   -> remove scratch worktree and its build output
for N in "$@"; do
  git -C /repo worktree remove --force /tmp/wt/$N 2>/dev/null || rm -rf /tmp/wt/$N
done
git -C /repo worktree prune
