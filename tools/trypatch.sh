#!/bin/bash
# debug helper: scratch copy of /repo with one patch applied, private cache.  usage: trypatch.sh <name> <patch>  -> prints env prefix
N=$1; P=$2; B=/tmp/trypatch/$N
rm -rf $B; mkdir -p $B/repo $B/cache
rsync -a --exclude target --exclude .git /repo/ $B/repo/
cp -a /verif/.cache/target $B/cache/target
(cd $B/repo && patch -p1 --no-backup-if-mismatch -i $P >/dev/null) || { echo "patch failed"; exit 1; }
echo "MLS_REPO=$B/repo MLS_VERIF_CACHE=$B/cache"
