#!/bin/bash
# usage: mkwt.sh <name>   -> scratch worktree of /repo HEAD under /tmp/wt/<name> (fresh target dir: the first build compiles everything)
set -e
N=$1
mkdir -p /tmp/wt
git -C /repo worktree add --detach /tmp/wt/$N HEAD >/dev/null 2>&1
echo /tmp/wt/$N
