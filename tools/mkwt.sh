#!/bin/bash
# usage: mkwt.sh <name>   -> scratch worktree of /repo HEAD under /tmp/wt/<name> with a warm target dir
set -e
N=$1
mkdir -p /tmp/wt
git -C /repo worktree add --detach /tmp/wt/$N HEAD >/dev/null 2>&1
cp -r /repo/target /tmp/wt/$N/target
echo /tmp/wt/$N
