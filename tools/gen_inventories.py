#!/usr/bin/env python3
"""(Re)generate the reviewed GUARD / ERR inventories from the CURRENT tree: rules/tables/{guard,err}_inventory.json.
The inventories are the reference instances later changes are compared with (a guard / error construction that
disappears, changes relation or changes error is reported)."""
import json, os, sys
HERE = os.path.dirname(os.path.dirname(os.path.abspath(__file__)))
sys.path.insert(0, HERE)
from rules.core import engine
from rules.core.rules import guard_inventory, err_inventory
from rules.core.panics import TABLES

configs = sys.argv[1:] or ['A', 'B', 'C', 'D', 'P']
gi, ei = {}, {}
gp, ep = os.path.join(TABLES, 'guard_inventory.json'), os.path.join(TABLES, 'err_inventory.json')
if os.path.exists(gp):
    gi = json.load(open(gp)); ei = json.load(open(ep))
for c in configs:
    P = engine.load_prog(c)
    gi[c] = guard_inventory(P, r'.')
    ei[c] = err_inventory(P, r'.')
    print(c, 'functions with guards', len(gi[c]), 'guards', sum(sum(v.values()) for v in gi[c].values()),
          'functions constructing errors', len(ei[c]), 'constructions', sum(len(v) for v in ei[c].values()))
os.makedirs(TABLES, exist_ok=True)
json.dump(gi, open(gp, 'w'), indent=1, sort_keys=True)
json.dump(ei, open(ep, 'w'), indent=1, sort_keys=True)
