#!/usr/bin/env python3
"""(Re)generate the reviewed GUARD / ERR inventories from the CURRENT tree: rules/tables/{guard,err}_inventory.json.
The inventories are the reference instances later changes are compared with (a guard / error construction that
disappears, changes relation or changes error is reported)."""
import json, os, sys
HERE = os.path.dirname(os.path.dirname(os.path.abspath(__file__)))
sys.path.insert(0, HERE)
from rules.core import engine
from rules.core.rules import guard_inventory, err_inventory, condition_inventory, mustpass_inventory, wiring_inventory, variant_map_inventory, fns_in_files, owner_qual
from rules.core.inventory_rule import all_anchor_files
from rules.core.panics import TABLES

configs = sys.argv[1:] or ['A', 'B', 'C', 'D', 'P']
gi, ei, ci, mi, wi, vi = {}, {}, {}, {}, {}, {}
gp, ep = os.path.join(TABLES, 'guard_inventory.json'), os.path.join(TABLES, 'err_inventory.json')
cp_, mp_ = os.path.join(TABLES, 'condition_inventory.json'), os.path.join(TABLES, 'mustpass_inventory.json')

wp_ = os.path.join(TABLES, 'wiring_inventory.json')
if os.path.exists(cp_):
    ci = json.load(open(cp_)); mi = json.load(open(mp_))
if os.path.exists(wp_):
    wi = json.load(open(wp_))
vp_ = os.path.join(TABLES, 'variant_map_inventory.json')
if os.path.exists(vp_):
    vi = json.load(open(vp_))
for c in configs:
    P = engine.load_prog(c)
    files = all_anchor_files()
    gg = guard_inventory(P, files)
    gi[c] = {fl: {k: {'n': n, 'fns': guard_inventory.hints[fl][k]} for k, n in d.items()} for fl, d in gg.items()}
    ee = err_inventory(P, files)
    ei[c] = {fl: {k: {'n': n, 'fns': err_inventory.hints[fl][k]} for k, n in d.items()} for fl, d in ee.items()}
    files = all_anchor_files()
    owner_file = {}
    for f in fns_in_files(P, files):
        owner_file.setdefault(owner_qual(P, f), f['loc'].rsplit(':', 1)[0])
        owner_file.setdefault(f['qual'], f['loc'].rsplit(':', 1)[0])
    cc = condition_inventory(P, files)
    ci[c] = {fl: {k: {'n': n, 'fns': condition_inventory.hints[fl][k]} for k, n in d.items()} for fl, d in cc.items()}
    mm = mustpass_inventory(P, files)
    mi[c] = {k: {'file': owner_file.get(k, '?'), 'callees': v} for k, v in mm.items()}
    ww = wiring_inventory(P, files)
    wi[c] = {fl: {k: {'n': n, 'fns': wiring_inventory.hints[fl][k]} for k, n in d.items()} for fl, d in ww.items()}
    vv = variant_map_inventory(P, files)
    vi[c] = {fl: {k: {'n': n, 'fns': variant_map_inventory.hints[fl][k]} for k, n in d.items()} for fl, d in vv.items()}
    print(c, 'variant maps', sum(len(v) for v in vi[c].values()))
    print(c, 'wirings', sum(len(v) for v in wi[c].values()))
    print(c, 'conditions', sum(len(v) for v in ci[c].values()), 'must-pass callees', sum(len(v['callees']) for v in mi[c].values()))
    print(c, 'guards', sum(x['n'] for v in gi[c].values() for x in v.values()), 'error constructions', sum(x['n'] for v in ei[c].values() for x in v.values()))
os.makedirs(TABLES, exist_ok=True)
json.dump(gi, open(gp, 'w'), indent=1, sort_keys=True)
json.dump(ei, open(ep, 'w'), indent=1, sort_keys=True)
json.dump(ci, open(cp_, 'w'), indent=1, sort_keys=True)
json.dump(mi, open(mp_, 'w'), indent=1, sort_keys=True)
json.dump(wi, open(wp_, 'w'), indent=1, sort_keys=True)
json.dump(vi, open(vp_, 'w'), indent=1, sort_keys=True)
