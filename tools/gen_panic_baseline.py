#!/usr/bin/env python3
"""(Re)generate the reviewed panic-site baselines rules/tables/panic_<set>.json from the CURRENT tree.
Run only after reviewing `./check Cxx` output: the baseline is the reference later changes are compared with."""
import importlib, json, os, sys
HERE = os.path.dirname(os.path.dirname(os.path.abspath(__file__)))
sys.path.insert(0, HERE)
from rules.core import engine
from rules.core.panics import PanicAudit, TABLES

def main():
    props = sys.argv[1:] or ['C03', 'C12', 'C16']
    for prop in props:
        mod = importlib.import_module('rules.props.' + prop)
        for name, (entries_fn, _label) in mod.PANIC_SETS.items():
            out = {}
            for c in mod.CONFIGS['thorough']:
                P = engine.load_prog(c)
                ents = entries_fn(P)
                pa = PanicAudit(P, ents)
                cnt, where, total, dis = pa.counts()
                out[c] = {q: dict(v) for q, v in sorted(cnt.items())}
                print(prop, name, c, 'bodies', len(pa.keys), 'sites', total, 'discharged', dis, 'undischarged', sum(sum(v.values()) for v in cnt.values()))
            os.makedirs(TABLES, exist_ok=True)
            with open(os.path.join(TABLES, 'panic_%s.json' % name), 'w') as fh:
                json.dump(out, fh, indent=1, sort_keys=True)

main()
