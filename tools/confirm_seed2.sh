#!/bin/bash
# usage: confirm_seed.sh <worktree-name>   (worktree under /tmp/wt/<name> with _seed/{patch.diff,demo.diff,run_demo.sh})
# Confirms independently: existing suite passes with the patch, demo fails with the patch, demo passes without it.
N=$1; W=/tmp/wt/$N; S=$W/_seed; L=$S/confirm.log
cd $W || exit 2
: > $L
# normalise: start from a clean tree, then apply patch + demo
git reset -q --hard
git checkout -q -- . 2>/dev/null
git clean -fdq -e _seed -e target
git apply $S/patch.diff || { echo "PATCH DOES NOT APPLY" >> $L; exit 1; }
echo "== existing suite WITH patch (demo not applied)" >> $L
cargo nextest run --workspace --no-fail-fast --tool-config-file pb:/w/lib/nextest.toml --profile pb --test-threads 8 --offline 2>&1 | grep -E "Summary|FAIL|TIMEOUT|error\[|error:" | sort | uniq >> $L
if [ -s $S/demo.diff ]; then git apply $S/demo.diff || echo "DEMO DIFF DOES NOT APPLY" >> $L; fi
echo "== demo WITH patch (expected: FAIL)" >> $L
bash $S/run_demo.sh 2>&1 | grep -E "Summary|FAIL|PASS|test result|panicked|error\[|error:" | head -20 >> $L
git apply -R $S/patch.diff
echo "== demo WITHOUT patch (expected: PASS)" >> $L
bash $S/run_demo.sh 2>&1 | grep -E "Summary|FAIL|PASS|test result|panicked|error\[|error:" | head -20 >> $L
git apply $S/patch.diff
echo "== done" >> $L
