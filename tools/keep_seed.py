#!/usr/bin/env python3
"""keep_seed.py <worktree-name> <seed-id> : copy a confirmed seeded change into /verif/seeded/<seed-id>/"""
import json, os, shutil, sys
wt, sid = sys.argv[1], sys.argv[2]
S = '/tmp/wt/%s/_seed' % wt
D = '/verif/seeded/%s' % sid
os.makedirs(D, exist_ok=True)
for f in ('patch.diff', 'demo.diff', 'run_demo.sh'):
    if os.path.exists(os.path.join(S, f)):
        shutil.copy(os.path.join(S, f), os.path.join(D, f))
meta = json.load(open(os.path.join(S, 'meta.json')))
log = open(os.path.join(S, 'confirm.log')).read() if os.path.exists(os.path.join(S, 'confirm.log')) else ''
out = {
    'id': sid,
    'property': meta.get('property'),
    'breaks': meta.get('summary'),
    'needs_to_manifest': meta.get('needs_to_manifest'),
    'files_changed': meta.get('files_changed'),
    'author': 'independent sub-agent given only the property text and a scratch worktree',
    'base_commit': os.popen('git -C /tmp/wt/%s rev-parse HEAD' % wt).read().strip(),
    'agent_report': meta.get('results'),
    'what_i_ran': ['tools/confirm_seed.sh %s  (clean worktree + patch: full nextest workspace suite; + demo: run_demo.sh; '
                   'patch reversed: run_demo.sh)' % wt],
    'my_confirmation_log': [l for l in log.splitlines() if l.strip()],
    'detected_by': [],
}
json.dump(out, open(os.path.join(D, 'meta.json'), 'w'), indent=1)
print('kept', D)
