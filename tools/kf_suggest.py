#!/usr/bin/env python3
"""Print candidate known_findings.json entries for the violations a check reports on the CURRENT tree (to be curated by hand)."""
import json, re, subprocess, sys
out = []
for prop in sys.argv[1:]:
    p = subprocess.run(['./check', prop], capture_output=True, text=True, cwd='/verif')
    key = None
    for l in p.stdout.splitlines():
        m = re.match(r'\s+key=(.*)$', l)
        if m:
            key = m.group(1)
            continue
        if key and l.startswith('  ') and not l.startswith('  rule='):
            out.append({'property': prop, 'key': key, 'what': l.strip()[:400]})
            key = None
print(json.dumps(out, indent=1))
