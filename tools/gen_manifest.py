#!/usr/bin/env python3
"""Generate MANIFEST.json from the property modules present under rules/props/."""
import importlib, json, os, sys
HERE = os.path.dirname(os.path.dirname(os.path.abspath(__file__)))
sys.path.insert(0, HERE)

NA = {
    'C14': 'byte-equality and cross-acceptance of primitives implemented in C libraries behind FFI (OpenSSL, AWS-LC) and RustCrypto: '
           'no property of the Rust source shape is a necessary condition of it; needs execution of the providers (another technique family)',
    'C20': 'branch-free bit arithmetic on u32 (root/parent/sibling/copath/LCA/subtree): equality with the RFC 9420 Appendix C definitions '
           'for every size is a statement about runtime integers that no dataflow/typestate/shape argument bounds (needs enumeration or a solver)',
}
NOT_BUILT = 'rules designed in DESIGN.md section 4 but not armed yet in this revision; not claimed until the check exists'

props = [json.loads(l) for l in open(os.path.join(HERE, 'properties.jsonl'))]
checks, na = [], []
for p in props:
    pid = p['id']
    if pid in NA:
        na.append({'property_id': pid, 'reason': NA[pid]})
        continue
    if not os.path.exists(os.path.join(HERE, 'rules', 'props', pid + '.py')):
        na.append({'property_id': pid, 'reason': NOT_BUILT})
        continue
    mod = importlib.import_module('rules.props.' + pid)
    checks.append({
        'property_id': pid,
        'quick_cmd': './check %s --tier quick' % pid,
        'thorough_cmd': './check %s --tier thorough' % pid,
        'evidence_file': '/verif/evidence/%s.json' % pid,
        'replay_cmd_template': './check %s --replay {path}' % pid,
        'engine': 'mlsrules',
        'level_claimed': {'category': mod.LEVEL, 'text': mod.EXPLANATION, 'design_ref': 'DESIGN.md section 4 / ' + pid},
        'level_note': '; '.join(mod.ASSUMPTIONS) + '; facts = MIR of nightly rustc at mir-opt-level 0 for the listed cargo configurations; '
                      'providers opaque; sync build only',
        'technique': 'static analysis: ' + mod.TECHNIQUE + '; plus reviewed-structure inventories over the anchor files (branch conditions, guards, error '
                     'constructions, unconditional calls, argument origins, match-arm variant maps) compared with tables regenerated from the reviewed tree',
    })
m = {
    'version': 1,
    'setup_cmd': './setup.sh',
    'hooks': {
        'guard': 'awslabs_mls_rs_verif',
        'enable': 'none needed: the fact extractor is a rustc driver injected with RUSTC_WORKSPACE_WRAPPER under `cargo +nightly check`; '
                  '/repo carries no instrumentation (the guard name is nominal)',
        'baseline_off_cmd': 'cd /repo && cargo nextest run --workspace --no-fail-fast --tool-config-file pb:/w/lib/nextest.toml --profile pb --test-threads 8 --offline',
        'source_commits': [],
        'add_only': True,
    },
    'engines': [
        {'name': 'mlsfacts', 'path': 'driver/', 'serves_properties': [c['property_id'] for c in checks],
         'kind_free_text': 'rustc_private driver dumping type-checked MIR facts (bodies, resolved callees, field-named places, ADTs, impl tables) as JSON lines'},
        {'name': 'mlsrules', 'path': 'rules/', 'serves_properties': [c['property_id'] for c in checks],
         'kind_free_text': 'Python rule engine over the facts: CFG dominance/reachability, def-use origins, call graph with type-parameter '
                           'environment, interprocedural mod-sets (failure atomicity), guard normalisation, codec sibling cross-check, panic-site audit'},
    ],
    'checks': checks,
    'not_applicable': na,
    'notes': 'Technique family: static analysis only. Every check re-extracts facts from /repo\'s current working tree (cache keyed by a hash of the tree). '
             'Exit 2 = tree does not build (no verdict). Known findings: known_findings.json. See DESIGN.md.',
}
json.dump(m, open(os.path.join(HERE, 'MANIFEST.json'), 'w'), indent=1)
print('checks:', [c['property_id'] for c in checks]); print('n/a:', [n['property_id'] for n in na])
