#!/usr/bin/env python3
"""Print the prompt given to a sub-agent that produces BEHAVIOUR-PRESERVING refactors (to test the checks for false alarms).
usage: refactor_prompt.py <worktree> <file> [<file> ..]"""
import sys
wt = sys.argv[1]
files = [a for a in sys.argv[2:] if not a.startswith('fn:')]
fns = [a[3:] for a in sys.argv[2:] if a.startswith('fn:')]
print(f"""You are helping to evaluate a verification effort for the Rust crate workspace awslabs/mls-rs (an implementation of the MLS protocol, RFC 9420). Your job: produce SIX independent, realistic, strictly BEHAVIOUR-PRESERVING refactorings of library (non-test) code, of the kind a maintainer makes while tidying up, each as its own patch against the clean checkout. They will be used to see whether a static checker raises false alarms on harmless edits.

Work ONLY inside your own scratch git worktree of the repository: {wt}  (a git worktree of the repo at its current HEAD; the first build compiles everything, several minutes). Do NOT touch /repo. Do NOT read or write anything under /verif or /root/proto or /root/.vp. You have no network; use `--offline` with cargo.

## Where

Refactor code in these files only (pick functions that carry real logic: validation, state updates, key handling, loops over tree nodes or proposals; not trivial getters):
{chr(10).join('- ' + f for f in files)}
{('Refactor ONLY these functions (one patch per function, six different functions, pick the ones with the most logic):' + chr(10) + chr(10).join('- `' + f + '`' for f in fns)) if fns else ''}

## Already done by others (choose DIFFERENT functions, or a clearly different kind of edit on the same function)

{open('/tmp/props/refactors_done.txt').read() if __import__('os').path.exists('/tmp/props/refactors_done.txt') else ''}

## What kind of edits

Each of the six patches must be a DIFFERENT kind of refactoring, 3-40 changed lines, for example: rename a parameter or local everywhere in a function; extract part of a function into a private helper in the same file; inline a small private helper into its only caller; rewrite a `for` loop as an iterator chain (or the reverse); `match` <-> `if let` / `let else` / `matches!`; early `return Err(..)` <-> `cond.then_some(()).ok_or(..)?` or nested `if/else`; `x.is_none()` <-> `!x.is_some()` <-> pattern; reorder two INDEPENDENT statements or two independent checks; replace hand-written code by the equivalent std method (or the reverse); introduce or remove an intermediate `let`; replace `a > b` by `b < a`; merge two `if`s into `&&` or split one; change a `&Vec<T>` parameter to `&[T]`; replace `.clone()` on a Copy/cheap value by a borrow where the types allow; convert a closure into a small named fn.

Strict rules:
- The observable behaviour must be EXACTLY the same for every input: same results, same error variants in the same situations, same order of externally visible effects (writes to the group state, storage, calls into providers), same serialized bytes. When in doubt, choose a more conservative edit. Do not "fix" or "improve" behaviour, do not change public API, do not touch tests.
- Each patch applies to the CLEAN checkout on its own (`git stash` / `git checkout -- .` between patches).
- For each patch: `cargo build --offline` must succeed and `cargo nextest run -p mls-rs --offline` (for files under mls-rs-codec: `cargo nextest run -p mls-rs-codec --offline`) must give exactly the baseline result. Baseline for `-p mls-rs`: all tests pass except `group::interop_test_vectors::passive_client::interop_passive_client`, which fails already. Use a generous timeout (20 minutes) for these commands.

## Deliverables (put them in {wt}/_refactor/)

- `p1.diff` .. `p6.diff`: `git diff` of each refactoring alone against the clean checkout (must apply with `git apply`).
- `notes.json`: a list of six objects {{"patch": "p1.diff", "kind": "...", "function": "...", "file": "...", "why_equivalent": "...one or two sentences...", "build": "ok", "tests": "..."}}.

Leave the worktree clean (no patch applied) at the end. Report the six kinds and functions in your answer. Be honest: if you are not fully sure an edit preserves behaviour, do not include it (produce fewer patches instead).
""")
