#!/bin/bash
# Build the fact extractor and warm the dependency build for the quick configuration. Offline.
set -e
cd "$(dirname "$0")"
export CARGO_NET_OFFLINE=true
(cd driver && cargo build --offline --release 2>&1 | tail -2)
# warm the cache (extracts facts for configuration A of the current tree; later runs reuse compiled dependencies)
python3 rules/core/extract.py A P >/dev/null 2>&1 || python3 rules/core/extract.py A || true
echo setup done
